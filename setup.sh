#!/bin/bash
# setup_cmd: builds the framework offline from files on disk only.
set -euo pipefail
cd "$(dirname "$0")"
export CARGO_NET_OFFLINE=true
mkdir -p .cache out evidence
./tools/vendor.sh
# warm the dependency build outputs of the MIR dump (nightly) and of the native replay binary (1.83)
./tools/mirdump.sh .cache/mir/setup-warmup >/dev/null
rm -rf .cache/mir/setup-warmup
( cd replay && RUSTUP_TOOLCHAIN=1.83.0 cargo build --offline --features hooks --target-dir /verif/.cache/replay-target-debug >/dev/null 2>&1 ) &
( cd replay && RUSTUP_TOOLCHAIN=1.83.0 cargo build --offline --features hooks --release --target-dir /verif/.cache/replay-target-release >/dev/null 2>&1 ) &
wait
/opt/veriftools/pyvenv/bin/python -c "import z3; print('z3', z3.get_version_string())"
echo setup ok

import sys, time
sys.path.insert(0, '/tmp/msx')
from msx4 import *
import msx
text = open('/tmp/mirprobe/mir.txt').read()
items = split_items(text)

def c_vec_push_u8(m, st, fr, fname, argv):
    r, b = argv
    v = deref(r)
    v.arr = z3.Store(v.arr, v.len, b.e); v.len = z3.simplify(v.len + 1)
    return UNIT
def c_range_for_each(m, st, fr, fname, argv):
    rg, clo = argv
    a, b = z3.simplify(rg.f[0].e), z3.simplify(rg.f[1].e)
    if not (z3.is_bv_value(a) and z3.is_bv_value(b)):
        # fork on the count (bounded)
        outs = []
        for k in range(0, 4):
            cond = (rg.f[1].e - rg.f[0].e) == k
            if m.feasible(st, cond):
                s2 = msx.clone_state(st); s2.pc.append(cond); outs.append((s2, k))
        res = []
        for s2, k in outs:
            # emulate closure: push ';' k times on encoder.mappings (closure captures &mut self)
            f2 = s2.frames[-1]
            clo2 = m.operand(s2, f2, 'copy _26') if False else None
            res.append((s2, ('foreach', k)))
        return res
    raise NotImplementedError
contracts9 = dict(contracts4)
contracts9[r'^Vec::<u8>::push$'] = c_vec_push_u8
order = sorted(contracts9, key=lambda k: (0 if 'u8' in k else 1))
contracts9 = {k: contracts9[k] for k in order}

# clone support for VecU8
import msx4
_old = msx.clone_state
def clone9(st):
    return _clone9(st)
def _clone9(st):
    memo = {}
    def cv(v):
        if isinstance(v, (IntV, Unit, External)) or z3.is_expr(v) or v is None or isinstance(v, (int, str, tuple, bool)): return v
        if isinstance(v, ClosureV): return ClosureV(v.tag, [cv(x) for x in v.f])
        if isinstance(v, Agg): return Agg([cv(x) for x in v.f])
        if isinstance(v, Enum): return Enum(v.disc, {k: Agg([cv(x) for x in p.f]) for k, p in v.payload.items()})
        if isinstance(v, Ref): return Ref(cc(v.cell), v.path)
        if isinstance(v, VecU8): return VecU8(v.arr, v.len)
        if isinstance(v, Panic): return v
        raise NotImplementedError('clone ' + repr(type(v)))
    def cc(c):
        if c.id in memo: return memo[c.id]
        n = Cell.__new__(Cell); n.id = c.id; memo[c.id] = n; n.v = cv(c.v); return n
    s2 = State(); s2.pc = list(st.pc); s2.events = list(st.events); s2.steps = st.steps
    for fr in st.frames:
        if isinstance(fr, ContFrame):
            s2.frames.append(ContFrame(fr.then, [cv(x) for x in fr.saved], (cc(fr.ret_place[0]), fr.ret_place[1]), fr.ret_bb)); continue
        nf = Frame.__new__(Frame)
        nf.item, nf.body, nf.bb, nf.ip = fr.item, fr.body, fr.bb, fr.ip
        nf.locals = {i: cc(c) for i, c in fr.locals.items()}
        rp = fr.ret_place
        nf.ret_place = (cc(rp[0]), rp[1]) if isinstance(rp, tuple) else rp
        nf.ret_bb = fr.ret_bb; nf.visits = dict(getattr(fr, 'visits', {}))
        s2.frames.append(nf)
    s2.extra = {k: cv(v) for k, v in getattr(st, 'extra', {}).items()}
    return s2
msx.clone_state = clone9

def load_smir():
    out = {}; cur = None
    for l in open('/tmp/mirprobe/smir.txt'):
        mm = re.match(r'^fn (.*?)\((?:_1: |\) ->)', l)
        if mm: cur = mm.group(1)
        mm = re.match(r'^\s+(_\d+) = (\{closure@[^}]*\})\((.*)\);$', l)
        if mm: out[(mm.group(2), mm.group(1))] = split_top(mm.group(3))
    return out
SMIR = load_smir()
def V(n, w=32): return z3.BitVec(n, w)
def run(bits, with_name):
    m = Machine4(items, contracts9, loop_bound=16); m.smir_closures = SMIR
    st = State()
    lim = 1 << bits
    # encoder state: same line as the mapping (no ';'), not initial, active mapping
    cl, cc_, col, coc, csi, cni = [V(x) for x in ('cl', 'cc', 'col', 'coc', 'csi', 'cni')]
    gl, gc, si, ol, oc, ni = [V(x) for x in ('gl', 'gc', 'si', 'ol', 'oc', 'ni')]
    def near(a, b): return z3.And(z3.ULT(z3.If(z3.UGE(a, b), a - b, b - a), lim), z3.ULT(a, 1 << 30), z3.ULT(b, 1 << 30))
    st.pc += [gl == cl, z3.UGE(gc, cc_), near(gc, cc_), near(si, csi), near(ol, col), near(oc, coc), near(ni, cni), z3.UGE(cl, 1)]
    arr0 = z3.Array('out0', z3.BitVecSort(64), z3.BitVecSort(8))
    vec = VecU8(arr0, z3.BitVecVal(0, 64))
    enc = Cell(Agg([IntV(cl, 'u32'), IntV(cc_, 'u32'), IntV(col, 'u32'), IntV(coc, 'u32'), IntV(csi, 'u32'), IntV(cni, 'u32'), z3.BoolVal(True), z3.BoolVal(with_name), z3.BoolVal(False), vec]))
    orig = some(Agg([IntV(si, 'u32'), IntV(ol, 'u32'), IntV(oc, 'u32'), some(IntV(ni, 'u32')) if with_name else NONE()]))
    mapping = Cell(Agg([IntV(gl, 'u32'), IntV(gc, 'u32'), orig]))
    st.extra = {'enc': Ref(enc)}
    it = m.find('encoder::<impl at src/encoder.rs:69:1: 69:45>::encode')
    m.push_frame(st, it, [Ref(enc), Ref(mapping)], None, None)
    t0 = time.time()
    outs = m.run(st, until_depth=0)
    lens = {}
    for s2, rv in outs:
        if isinstance(rv, Panic): lens['PANIC'] = lens.get('PANIC', 0) + 1; continue
        e = s2.extra['enc'].cell.v
        n = z3.simplify(e.f[9].len).as_long(); lens[n] = lens.get(n, 0) + 1
    print(f'deltas<2^{bits} name={with_name}: paths={len(outs)} wall={time.time()-t0:.1f}s queries={m.queries} out-lengths={dict(sorted(lens.items(), key=lambda kv: str(kv[0])))}')
run(5, False)
run(5, True)
run(10, False)

#!/usr/bin/env python3
"""Spike: symbolic execution of rustc MIR text (subset) with z3. Throw-away feasibility probe."""
import re, sys, copy, itertools, time
import z3

# ----------------------------------------------------------------------------- MIR item splitting
class Item:
    def __init__(self, kind, name, header, body):
        self.kind, self.name, self.header, self.body = kind, name, header, body
        self.parsed = None

def split_items(text):
    items = {}
    lines = text.split('\n')
    i = 0
    while i < len(lines):
        l = lines[i]
        m = re.match(r'^(fn|const|static) (.*)$', l)
        if m and not l.startswith(' '):
            kind = m.group(1)
            if l.rstrip().endswith('{'):
                j = i + 1
                while lines[j] != '}':
                    j += 1
                body = lines[i + 1:j]
                header = l
                i = j + 1
            else:
                body = None
                header = l
                i += 1
            if kind == 'fn':
                name = header[3:header.index('(_1') if '(_1' in header else header.index('(')].strip() if '(' in header else header[3:]
                # name up to the parameter list: find "(_1:" or "() ->"
                mm = re.match(r'^fn (.*?)\((?:_1: |\) ->)', header)
                name = mm.group(1) if mm else name
            else:
                mm = re.match(r'^(?:const|static) (.*?): (.*) = (.*)$', header)
                name = mm.group(1)
            items.setdefault(name, Item(kind, name, header, body))
        else:
            i += 1
    return items

# ----------------------------------------------------------------------------- tokenizer helpers
def split_top(s, sep=','):
    """split on sep at nesting depth 0 of ()[]{}<> and outside string literals"""
    out, depth, cur, i, instr = [], 0, '', 0, False
    while i < len(s):
        c = s[i]
        if instr:
            cur += c
            if c == '\\':
                cur += s[i + 1]; i += 1
            elif c == '"':
                instr = False
        elif c == '"':
            instr = True; cur += c
        elif c in '([{<':
            depth += 1; cur += c
        elif c in ')]}>':
            if c == '>' and s[i - 1] == '-':
                cur += c
            else:
                depth -= 1; cur += c
        elif c == sep and depth == 0:
            out.append(cur.strip()); cur = ''
        else:
            cur += c
        i += 1
    if cur.strip():
        out.append(cur.strip())
    return out

INT_TYPES = {'u8': 8, 'u16': 16, 'u32': 32, 'u64': 64, 'usize': 64, 'i8': 8, 'i16': 16, 'i32': 32, 'i64': 64, 'isize': 64, 'u128': 128, 'i128': 128}
SIGNED = {'i8', 'i16', 'i32', 'i64', 'isize', 'i128'}

# ----------------------------------------------------------------------------- values
class Cell:
    _n = itertools.count()
    def __init__(self, v=None):
        self.v = v
        self.id = next(Cell._n)

class Ref:
    def __init__(self, cell, path=()):
        self.cell, self.path = cell, tuple(path)
    def __repr__(self): return f'Ref(c{self.cell.id},{self.path})'

class Agg:           # struct / tuple / array
    def __init__(self, fields): self.f = list(fields)
    def __repr__(self): return f'Agg{self.f}'

class Enum:          # disc: python int or z3 BV64 ; payload: {variant: [fields]}
    def __init__(self, disc, payload): self.disc, self.payload = disc, payload
    def __repr__(self): return f'Enum({self.disc},{self.payload})'

class IntV:          # integer with rust type
    __slots__ = ('e', 'ty')
    def __init__(self, e, ty): self.e, self.ty = e, ty
    def __repr__(self): return f'{self.e}:{self.ty}'

class VecU8:
    def __init__(self, arr, ln): self.arr, self.len = arr, ln

class SliceIter:     # std::slice::Iter<u8> over a z3 array with concrete/sym bounds
    def __init__(self, arr, pos, end): self.arr, self.pos, self.end = arr, pos, end

class Closure:
    def __init__(self, name, captures): self.name, self.captures = name, captures

class Unit: pass
UNIT = Unit()

def bv(val, ty): return IntV(z3.BitVecVal(val, INT_TYPES[ty]), ty)
def is_conc(e):
    e = z3.simplify(e) if z3.is_expr(e) else e
    return z3.is_bv_value(e) or z3.is_true(e) or z3.is_false(e)

# ----------------------------------------------------------------------------- parsing bodies
class Body:
    def __init__(self): self.locals, self.blocks, self.nargs = {}, {}, 0

def parse_body(item):
    if item.parsed: return item.parsed
    b = Body()
    if item.kind == 'fn':
        m = re.match(r'^fn .*?\((.*)\) -> (.*) \{$', item.header)
        params = m.group(1)
        # params like "_1: T, _2: T"
        ps = split_top(params)
        for p in ps:
            mm = re.match(r'^(?:mut )?_(\d+): (.*)$', p)
            if mm: b.locals[int(mm.group(1))] = mm.group(2); b.nargs = max(b.nargs, int(mm.group(1)))
        b.locals[0] = m.group(2)
    cur = None
    for l in item.body or []:
        s = l.strip()
        if not s or s.startswith('debug ') or s.startswith('scope ') or s == '}':
            continue
        m = re.match(r'^let (?:mut )?_(\d+): (.*);$', s)
        if m and cur is None:
            b.locals[int(m.group(1))] = m.group(2); continue
        m = re.match(r'^bb(\d+)( \(cleanup\))?: \{$', s)
        if m:
            cur = []; b.blocks[int(m.group(1))] = cur; continue
        if cur is not None:
            cur.append(s)
    item.parsed = b
    return b

# place parser -----------------------------------------------------------------
def parse_place(s):
    """returns (local, [proj...]) ; proj: ('deref',) ('field',i) ('downcast',name) ('index',local) ('cindex',i)"""
    s = s.strip()
    pos = 0
    def p():
        nonlocal pos
        if s[pos] == '(':
            pos += 1
            if s[pos] == '*':
                pos += 1
                base = p()
                assert s[pos] == ')', (s, pos); pos += 1
                base[1].append(('deref',))
                res = base
            else:
                base = p()
                if s.startswith(' as ', pos):
                    pos += 4
                    m = re.match(r'[A-Za-z_0-9]+', s[pos:]); name = m.group(0); pos += len(name)
                    assert s[pos] == ')'; pos += 1
                    base[1].append(('downcast', name)); res = base
                else:
                    assert s[pos] == '.', (s, pos); pos += 1
                    m = re.match(r'\d+', s[pos:]); idx = int(m.group(0)); pos += len(m.group(0))
                    assert s[pos] == ':'; pos += 1
                    # skip type until matching ')'
                    depth = 0
                    while True:
                        c = s[pos]
                        if c in '([<{': depth += 1
                        elif c in ')]>}':
                            if c == '>' and s[pos - 1] == '-': pass
                            elif depth == 0: break
                            else: depth -= 1
                        pos += 1
                    pos += 1
                    base[1].append(('field', idx)); res = base
        else:
            m = re.match(r'_(\d+)', s[pos:]); assert m, (s, pos)
            pos += len(m.group(0))
            res = [int(m.group(1)), []]
        while pos < len(s) and s[pos] == '[':
            m = re.match(r'\[_(\d+)\]', s[pos:])
            if m:
                res[1].append(('index', int(m.group(1)))); pos += len(m.group(0)); continue
            m = re.match(r'\[(\d+) of \d+\]', s[pos:])
            if m:
                res[1].append(('cindex', int(m.group(1)))); pos += len(m.group(0)); continue
            raise NotImplementedError('index proj ' + s[pos:])
        return res
    r = p()
    assert pos == len(s), ('trailing', s, pos)
    return r[0], r[1]

# ----------------------------------------------------------------------------- interpreter
class Panic(Exception):
    def __init__(self, msg): self.msg = msg
class Infeasible(Exception): pass
class Unwind(Exception): pass

class Frame:
    def __init__(self, item, body):
        self.item, self.body = item, body
        self.locals = {i: Cell(None) for i in body.locals}
        self.bb, self.ip = 0, 0
        self.ret_place = None   # (cell,path) in caller
        self.ret_bb = None

class State:
    def __init__(self):
        self.frames = []
        self.pc = []            # list of z3 bool
        self.events = []        # observable events
        self.steps = 0

class Machine:
    def __init__(self, items, contracts=None, loop_bound=64):
        self.items = items
        self.contracts = contracts or {}
        self.solver = z3.Solver()
        self.queries = 0
        self.solver_time = 0.0
        self.loop_bound = loop_bound
        self.const_cache = {}

    # ---- item lookup by suffix
    def find(self, name):
        if name in self.items: return self.items[name]
        last = name.split('::')[-1]
        cands = [k for k in self.items if k == last or k.endswith('::' + last)]
        if len(cands) == 1: return self.items[cands[0]]
        # try matching trailing two segments
        cands2 = [k for k in cands if k.split('::')[-2:] == name.split('::')[-2:]]
        if len(cands2) == 1: return self.items[cands2[0]]
        return None

    def feasible(self, st, extra):
        self.queries += 1
        t = time.time()
        self.solver.push()
        for c in st.pc: self.solver.add(c)
        self.solver.add(extra)
        r = self.solver.check()
        self.solver.pop()
        self.solver_time += time.time() - t
        if r == z3.unknown: raise RuntimeError('solver unknown')
        return r == z3.sat

    # ---- constants
    def eval_const_item(self, name):
        if name in self.const_cache: return self.const_cache[name]
        it = self.find(name)
        if it is None: raise NotImplementedError('const ' + name)
        if it.body is None:
            m = re.match(r'^const .*?: (.*) = (.*);$', it.header)
            v = self.operand_const(m.group(2)[len('const '):] if m.group(2).startswith('const ') else m.group(2))
        else:
            st = State()
            body = parse_body(it)
            fr = Frame(it, body); st.frames.append(fr)
            outs = self.run(st, until_depth=0)
            assert len(outs) == 1
            v = outs[0][1]
        self.const_cache[name] = v
        return v

    def operand_const(self, s):
        s = s.strip()
        m = re.match(r'^(-?\d+)_(u8|u16|u32|u64|usize|i8|i16|i32|i64|isize|u128|i128)$', s)
        if m: return bv(int(m.group(1)), m.group(2))
        mm = re.match(r'^(?:.*<impl )?(u8|u16|u32|u64|usize|i8|i16|i32|i64|isize)>?::(MIN|MAX)$', s)
        if mm:
            ty = mm.group(1); w = INT_TYPES[ty]; sg = ty in SIGNED
            val = (-(1 << (w - 1)) if sg else 0) if mm.group(2) == 'MIN' else ((1 << (w - 1)) - 1 if sg else (1 << w) - 1)
            return bv(val, ty)
        if s == 'true': return z3.BoolVal(True)
        if s == 'false': return z3.BoolVal(False)
        if s == '()': return UNIT
        m = re.match(r'^b"(.*)"$', s)
        if m:
            raw = bytes(m.group(1), 'utf-8').decode('unicode_escape').encode('latin1')
            return Ref(Cell(Agg([bv(x, 'u8') for x in raw])))
        m = re.match(r"^b'(.)'$", s)
        if m: return bv(ord(m.group(1)), 'u8')
        if re.match(r'^[A-Za-z_][A-Za-z_0-9:<>{}# ]*$', s):
            return copy_val(self.eval_const_item(s))
        raise NotImplementedError('const operand ' + s)

    # ---- places
    def resolve(self, st, fr, place_s):
        loc, projs = parse_place(place_s)
        cell, path = fr.locals[loc], []
        for pr in projs:
            if pr[0] == 'deref':
                v = get_path(cell.v, path)
                assert isinstance(v, Ref), ('deref of non-ref', place_s, v)
                cell, path = v.cell, list(v.path)
            elif pr[0] == 'field': path.append(pr[1])
            elif pr[0] == 'downcast': path.append(('dc', pr[1]))
            elif pr[0] == 'cindex': path.append(pr[1])
            elif pr[0] == 'index':
                iv = fr.locals[pr[1]].v
                e = z3.simplify(iv.e)
                if z3.is_bv_value(e): path.append(e.as_long())
                else: path.append(('sym', e))
        return cell, path

    def read(self, st, fr, place_s):
        cell, path = self.resolve(st, fr, place_s)
        return get_path(cell.v, path)

    def write(self, st, fr, place_s, val):
        cell, path = self.resolve(st, fr, place_s)
        if not path: cell.v = val
        else: set_path(cell, path, val)

    def operand(self, st, fr, s):
        s = s.strip()
        if s.startswith('copy '): return copy_val(self.read(st, fr, s[5:]))
        if s.startswith('move '): return self.read(st, fr, s[5:])
        if s.startswith('const '): return self.operand_const(s[6:])
        if re.match(r'^<.* as .*>::\w+$', s) or re.match(r"^[A-Za-z_:<>', ]+$", s): return ('fnitem', s)
        raise NotImplementedError('operand ' + s)

    # ---- rvalues
    def rvalue(self, st, fr, s, dest_ty=None):
        s = s.strip()
        m = re.match(r'^(Div|Rem|Add|Sub|Mul|BitAnd|BitOr|BitXor|Shl|Shr|Eq|Ne|Lt|Le|Gt|Ge|AddWithOverflow|SubWithOverflow|MulWithOverflow|AddUnchecked|SubUnchecked|ShlUnchecked|ShrUnchecked)\((.*)\)$', s)
        if m:
            a, b = [self.operand(st, fr, x) for x in split_top(m.group(2))]
            return binop(m.group(1), a, b)
        m = re.match(r'^(Not|Neg)\((.*)\)$', s)
        if m:
            a = self.operand(st, fr, m.group(2))
            if m.group(1) == 'Not':
                return z3.Not(a) if z3.is_bool(a) else IntV(~a.e, a.ty)
            return IntV(-a.e, a.ty)
        m = re.match(r'^(.*) as ([A-Za-z0-9_]+) \((IntToInt)\)$', s)
        if m:
            a = self.operand(st, fr, m.group(1)); ty = m.group(2)
            if z3.is_bool(a): a = IntV(z3.If(a, z3.BitVecVal(1, 8), z3.BitVecVal(0, 8)), 'u8')
            return cast(a, ty)
        m = re.match(r'^(.*) as (.*) \(PointerCoercion\(Unsize, \w+\)\)$', s)
        if m: return self.operand(st, fr, m.group(1))
        m = re.match(r'^&(mut |raw const |raw mut )?(.*)$', s)
        if m and not s.startswith('&&'):
            cell, path = self.resolve(st, fr, m.group(2))
            return Ref(cell, path)
        m = re.match(r'^discriminant\((.*)\)$', s)
        if m:
            v = self.read(st, fr, m.group(1))
            assert isinstance(v, Enum), v
            return IntV(z3.BitVecVal(v.disc, 64) if isinstance(v.disc, int) else v.disc, 'isize')
        m = re.match(r'^(?:Len|PtrMetadata)\((.*)\)$', s)
        if m:
            inner = m.group(1)
            v = self.operand(st, fr, inner) if inner.startswith(('copy ', 'move ')) else self.read(st, fr, inner)
            if isinstance(v, Ref): v = get_path(v.cell.v, list(v.path))
            return bv(len(v.f), 'usize')
        if s.startswith(('copy ', 'move ', 'const ')):
            return self.operand(st, fr, s)
        # aggregates
        if s.startswith('[') and s.endswith(']'):
            inner = s[1:-1]
            mm = re.match(r'^(.*); (\d+)$', inner)
            if mm and len(split_top(inner)) == 1:
                v = self.operand(st, fr, mm.group(1))
                return Agg([copy_val(v) for _ in range(int(mm.group(2)))])
            return Agg([self.operand(st, fr, x) for x in split_top(inner)])
        if s.startswith('(') and s.endswith(')'):
            return Agg([self.operand(st, fr, x) for x in split_top(s[1:-1])])
        m = re.match(r'^(?:std::option::)?Option::<.*>::None$', s)
        if m: return Enum(0, {})
        m = re.match(r'^(?:std::option::)?Option::<.*>::Some\((.*)\)$', s)
        if m: return Enum(1, {1: Agg([self.operand(st, fr, m.group(1))])})
        m = re.match(r'^([A-Za-z_][A-Za-z_0-9:<>\' ,]*?) \{ (.*) \}$', s)
        if m:
            fields = split_top(m.group(2))
            return Agg([self.operand(st, fr, f.split(': ', 1)[1]) for f in fields])
        m = re.match(r'^\{closure@.*\}$', s) or re.match(r'^\{closure@[^}]*\} \{ (.*) \}$', s)
        raise NotImplementedError('rvalue ' + s)

    # ---- run: explores all paths; returns list of (state, retval) when frame depth drops to until_depth
    def run(self, st0, until_depth):
        done, work = [], [st0]
        while work:
            st = work.pop()
            try:
                while True:
                    if len(st.frames) == until_depth:
                        done.append((st, st.retval)); break
                    forks = self.step(st)
                    if forks:
                        work.extend(forks[1:]); st = forks[0]
            except Panic as p:
                done.append((st, p))
        return done

    def step(self, st):
        fr = st.frames[-1]
        stmts = fr.body.blocks[fr.bb]
        s = stmts[fr.ip]
        st.steps += 1
        last = fr.ip == len(stmts) - 1
        if not last:
            fr.ip += 1
            if s.startswith(('StorageLive', 'StorageDead', 'nop', 'FakeRead', 'PlaceMention', 'Retag', 'AscribeUserType', 'Coverage')) or s.startswith('//'):
                return None
            m = re.match(r'^(.*?) = (.*);$', s)
            assert m, s
            rhs = m.group(2)
            if rhs.startswith('no_retag '): rhs = rhs[len('no_retag '):]
            self.cur_dest = m.group(1)
            self.write(st, fr, m.group(1), self.rvalue(st, fr, rhs))
            return None
        # terminator
        if s.startswith('goto -> '):
            self.jump(st, fr, int(re.match(r'goto -> bb(\d+);', s).group(1))); return None
        if s == 'return;':
            rv = fr.locals[0].v
            st.frames.pop()
            st.retval = rv
            if st.frames and fr.ret_place is not None:
                caller = st.frames[-1]
                cell, path = fr.ret_place
                if not path: cell.v = rv
                else: set_path(cell, path, rv)
                self.jump(st, caller, fr.ret_bb)
            return None
        if s == 'unreachable;':
            raise Panic('unreachable reached')
        m = re.match(r'^switchInt\((.*)\) -> \[(.*)\];$', s)
        if m:
            v = self.operand(st, fr, m.group(1))
            targets = []
            for t in split_top(m.group(2)):
                k, bbs = t.split(': '); targets.append((k, int(bbs[2:])))
            if z3.is_bool(v): e = z3.If(v, z3.BitVecVal(1, 8), z3.BitVecVal(0, 8))
            else: e = v.e
            e = z3.simplify(e)
            if z3.is_bv_value(e):
                val = e.as_long()
                for k, bbn in targets:
                    if k == 'otherwise' or int(k) == val:
                        self.jump(st, fr, bbn); return None
                raise Panic('switchInt no target')
            # fork
            conds, others = [], []
            for k, bbn in targets:
                if k == 'otherwise':
                    conds.append((z3.And([e != z3.BitVecVal(int(kk), e.size()) for kk, _ in targets if kk != 'otherwise']), bbn))
                else:
                    conds.append((e == z3.BitVecVal(int(k), e.size()), bbn))
            feas = [(c, bbn) for c, bbn in conds if self.feasible(st, c)]
            if not feas: raise Infeasible()
            outs = []
            for i, (c, bbn) in enumerate(feas):
                s2 = st if i == len(feas) - 1 else clone_state(st)
                s2.pc.append(c)
                self.jump(s2, s2.frames[-1], bbn)
                outs.append(s2)
            return outs
        m = re.match(r'^assert\((!?)(.*?), "(.*)"(?:, .*)?\) -> \[success: bb(\d+), unwind.*\];$', s)
        if m:
            v = self.operand(st, fr, m.group(2))
            ok = z3.Not(v) if m.group(1) else v
            ok = z3.simplify(ok)
            if z3.is_true(ok):
                self.jump(st, fr, int(m.group(4))); return None
            outs = []
            if self.feasible(st, z3.Not(ok)):
                s2 = clone_state(st); s2.pc.append(z3.Not(ok)); s2.panic = m.group(3) + ' @ ' + fr.item.name + ' bb' + str(fr.bb)
                s2.frames = []  # terminate
                s2.retval = Panic(s2.panic)
                outs.append(s2)
            if self.feasible(st, ok):
                st.pc.append(ok); self.jump(st, fr, int(m.group(4))); outs.insert(0, st)
            if not outs: raise Infeasible()
            return outs
        m = re.match(r'^drop\((.*)\) -> \[return: bb(\d+), unwind.*\];$', s)
        if m:
            self.jump(st, fr, int(m.group(2))); return None
        m = re.match(r'^(.*?) = (.*)\((.*)\) -> \[return: bb(\d+), unwind.*\];$', s)
        if m:
            dest, fname, args, retbb = m.group(1), m.group(2), m.group(3), int(m.group(4))
            argv = [self.operand(st, fr, a) for a in split_top(args)] if args.strip() else []
            return self.call(st, fr, dest, fname, argv, retbb)
        raise NotImplementedError('terminator ' + s)

    def jump(self, st, fr, bbn):
        fr.bb, fr.ip = bbn, 0
        key = (id(fr.item), bbn)
        fr.visits = getattr(fr, 'visits', {})
        fr.visits[bbn] = fr.visits.get(bbn, 0) + 1
        if fr.visits[bbn] > self.loop_bound:
            raise Unwind(f'loop bound exceeded at {fr.item.name} bb{bbn}')

    def call(self, st, fr, dest, fname, argv, retbb):
        # contracts first
        for pat, fn in self.contracts.items():
            if re.search(pat, fname):
                res = fn(self, st, fr, fname, argv)
                if isinstance(res, list) and res and isinstance(res[0], tuple) and isinstance(res[0][0], State):
                    # forked results: [(state, value)]
                    outs = []
                    for s2, v in res:
                        f2 = s2.frames[-1]
                        self.write(s2, f2, dest, v); self.jump(s2, f2, retbb); outs.append(s2)
                    return outs
                self.write(st, fr, dest, res); self.jump(st, fr, retbb)
                return None
        it = self.find(fname)
        if it is None or it.kind != 'fn':
            raise NotImplementedError('call ' + fname)
        self.push_frame(st, it, argv, self.resolve(st, fr, dest), retbb)
        return None

    def push_frame(self, st, it, argv, ret_place, retbb):
        body = parse_body(it)
        nf = Frame(it, body)
        for i, a in enumerate(argv): nf.locals[i + 1].v = a
        nf.ret_place, nf.ret_bb = ret_place, retbb
        st.frames.append(nf)

# ----------------------------------------------------------------------------- value helpers
def get_path(v, path):
    for p in path:
        if isinstance(p, tuple) and p[0] == 'dc':
            assert isinstance(v, Enum), v
            vi = {'None': 0, 'Some': 1}.get(p[1])
            if vi is None: raise NotImplementedError('downcast ' + p[1])
            v = Agg(v.payload[vi]) if not isinstance(v.payload[vi], Agg) else v.payload[vi]
            v = _payload_view(v)
        elif isinstance(p, tuple) and p[0] == 'sym':
            # symbolic index into aggregate of ints: build ite chain
            e = p[1]
            elems = v.f
            res = elems[-1].e
            for i in range(len(elems) - 2, -1, -1):
                res = z3.If(e == z3.BitVecVal(i, e.size()), elems[i].e, res)
            v = IntV(res, elems[0].ty)
        else:
            if isinstance(v, Ref):
                raise AssertionError('field of ref')
            v = v.f[p]
    return v

def _payload_view(a): return a

def set_path(cell, path, val):
    v = cell.v
    for p in path[:-1]:
        if isinstance(p, tuple) and p[0] == 'dc':
            vi = {'None': 0, 'Some': 1}[p[1]]
            if not isinstance(v.payload[vi], Agg): v.payload[vi] = Agg(v.payload[vi])
            v = v.payload[vi]
        else:
            v = v.f[p]
    p = path[-1]
    if isinstance(p, tuple) and p[0] == 'sym':
        e = p[1]
        for i in range(len(v.f)):
            v.f[i] = IntV(z3.If(e == z3.BitVecVal(i, e.size()), val.e, v.f[i].e), v.f[i].ty)
    elif isinstance(p, tuple) and p[0] == 'dc':
        raise NotImplementedError
    else:
        v.f[p] = val

def copy_val(v):
    if isinstance(v, Agg): return Agg([copy_val(x) for x in v.f])
    if isinstance(v, Enum): return Enum(v.disc, {k: (Agg([copy_val(x) for x in p.f]) if isinstance(p, Agg) else [copy_val(x) for x in p]) for k, p in v.payload.items()})
    return v

def clone_state(st):
    memo = {}
    def cv(v):
        if isinstance(v, (IntV, Unit, Closure)) or z3.is_expr(v) or v is None or isinstance(v, (int, str)): return v
        if isinstance(v, Agg): return Agg([cv(x) for x in v.f])
        if isinstance(v, Enum): return Enum(v.disc, {k: (Agg([cv(x) for x in p.f]) if isinstance(p, Agg) else [cv(x) for x in p]) for k, p in v.payload.items()})
        if isinstance(v, Ref): return Ref(cc(v.cell), v.path)
        if isinstance(v, VecU8): return VecU8(v.arr, v.len)
        if isinstance(v, SliceIter): return SliceIter(v.arr, v.pos, v.end)
        if isinstance(v, Panic): return v
        raise NotImplementedError('clone ' + repr(type(v)))
    def cc(c):
        if c.id in memo: return memo[c.id]
        n = Cell.__new__(Cell); n.id = c.id; memo[c.id] = n; n.v = cv(c.v); return n
    s2 = State()
    s2.pc = list(st.pc); s2.events = list(st.events); s2.steps = st.steps
    for fr in st.frames:
        nf = Frame.__new__(Frame)
        nf.item, nf.body, nf.bb, nf.ip = fr.item, fr.body, fr.bb, fr.ip
        nf.locals = {i: cc(c) for i, c in fr.locals.items()}
        nf.ret_place = (cc(fr.ret_place[0]), fr.ret_place[1]) if fr.ret_place else None
        nf.ret_bb = fr.ret_bb
        nf.visits = dict(getattr(fr, 'visits', {}))
        s2.frames.append(nf)
    s2.extra = {k: cv(v) for k, v in getattr(st, "extra", {}).items()}
    return s2

def binop(op, a, b):
    if z3.is_bool(a) and z3.is_bool(b):
        return {'Eq': a == b, 'Ne': a != b, 'BitAnd': z3.And(a, b), 'BitOr': z3.Or(a, b), 'BitXor': z3.Xor(a, b)}[op]
    ty = a.ty; sg = ty in SIGNED; w = INT_TYPES[ty]
    x, y = a.e, b.e
    if op in ('Shl', 'Shr', 'ShlUnchecked', 'ShrUnchecked'):
        yy = y
        if yy.size() < w: yy = z3.ZeroExt(w - yy.size(), yy)
        elif yy.size() > w: yy = z3.Extract(w - 1, 0, yy)
        yy = yy & z3.BitVecVal(w - 1, w)        # rust masks shift amount (overflow is asserted separately)
        if op.startswith('Shl'): return IntV(x << yy, ty)
        return IntV((x >> yy) if sg else z3.LShR(x, yy), ty)
    if op == 'Add' or op == 'AddUnchecked': return IntV(x + y, ty)
    if op == 'Sub' or op == 'SubUnchecked': return IntV(x - y, ty)
    if op == 'Mul': return IntV(x * y, ty)
    if op == 'Div': return IntV((x / y) if sg else z3.UDiv(x, y), ty)
    if op == 'Rem': return IntV(z3.SRem(x, y) if sg else z3.URem(x, y), ty)
    if op == 'BitAnd': return IntV(x & y, ty)
    if op == 'BitOr': return IntV(x | y, ty)
    if op == 'BitXor': return IntV(x ^ y, ty)
    if op == 'Eq': return x == y
    if op == 'Ne': return x != y
    if op == 'Lt': return (x < y) if sg else z3.ULT(x, y)
    if op == 'Le': return (x <= y) if sg else z3.ULE(x, y)
    if op == 'Gt': return (x > y) if sg else z3.UGT(x, y)
    if op == 'Ge': return (x >= y) if sg else z3.UGE(x, y)
    if op == 'AddWithOverflow':
        r = x + y
        ov = z3.Not(z3.BVAddNoOverflow(x, y, sg)) if not sg else z3.Or(z3.Not(z3.BVAddNoOverflow(x, y, True)), z3.Not(z3.BVAddNoUnderflow(x, y)))
        return Agg([IntV(r, ty), ov])
    if op == 'SubWithOverflow':
        r = x - y
        ov = z3.ULT(x, y) if not sg else z3.Or(z3.Not(z3.BVSubNoOverflow(x, y)), z3.Not(z3.BVSubNoUnderflow(x, y, True)))
        return Agg([IntV(r, ty), ov])
    if op == 'MulWithOverflow':
        r = x * y
        ov = z3.Not(z3.BVMulNoOverflow(x, y, sg))
        return Agg([IntV(r, ty), ov])
    raise NotImplementedError(op)

def cast(a, ty):
    w0, w1 = INT_TYPES[a.ty], INT_TYPES[ty]
    if w1 == w0: return IntV(a.e, ty)
    if w1 < w0: return IntV(z3.Extract(w1 - 1, 0, a.e), ty)
    return IntV(z3.SignExt(w1 - w0, a.e) if a.ty in SIGNED else z3.ZeroExt(w1 - w0, a.e), ty)

import sys, time
sys.path.insert(0, '/tmp/msx')
exec(open('/tmp/msx/t7.py').read().split("run(\"abc\\nde\", 1, [True])")[0])   # reuse contracts7 / Machine7 / SMIR

def smap(maps, sources, contents, names): return ('smapobj', maps, sources, contents, names)
def S(m, s): return m.operand_const('"%s"' % s.replace('\n', '\\n'))
def c_sources2(m, st, fr, fname, argv): return Ref(Cell(PyVec(list(sv(argv[0])[2]))))
def c_names2(m, st, fr, fname, argv): return Ref(Cell(PyVec(list(sv(argv[0])[4]))))
def c_get_source_content2(m, st, fr, fname, argv):
    sm = sv(argv[0]); i = z3.simplify(argv[1].e).as_long()
    c = sm[3]
    return some(c[i]) if (c is not None and i < len(c) and c[i] is not None) else NONE()
def c_cow_eq_str(m, st, fr, fname, argv):
    a, b = sv(argv[0]), sv(argv[1])
    a = a.payload[a.disc].f[0] if isinstance(a, Enum) else a
    b = sv(b) if isinstance(b, Ref) else b
    if s_len(a) != s_len(b): return z3.BoolVal(False)
    return z3.simplify(z3.And([s_byte(a, i) == s_byte(b, i) for i in range(s_len(a))])) if s_len(a) else z3.BoolVal(True)
def cow_str(v):
    v = sv(v) if isinstance(v, Ref) else v
    return v.payload[v.disc].f[0] if isinstance(v, Enum) else v
def str_key(s):
    s = cow_str(s)
    bs = [z3.simplify(s_byte(s, i)) for i in range(s_len(s))]
    assert all(z3.is_bv_value(b) for b in bs), 'symbolic map key'
    return bytes(b.as_long() for b in bs)
def c_map_get2(m, st, fr, fname, argv):
    mp, key = deref(argv[0]), str_key(argv[1])
    for k, val in mp.entries:
        if k == key: return some(Ref(Cell(val)))
    return NONE()
def c_map_insert2(m, st, fr, fname, argv):
    mp = deref(argv[0]); mp.entries.append((str_key(argv[1]), argv[2])); return NONE()
def c_opt_map_or(m, st, fr, fname, argv):
    o, dflt, clo = argv
    if disc_is(o, 0): return dflt
    raise CallClosureK(clo, [o.payload[1].f[0]], lambda saved, rv: rv, [])
def c_opt_cloned(m, st, fr, fname, argv):
    o = argv[0]
    return NONE() if disc_is(o, 0) else some(msx.copy_val(deref(o.payload[1].f[0])))
def c_opt_unwrap_or(m, st, fr, fname, argv):
    o = argv[0]; return argv[1] if disc_is(o, 0) else o.payload[1].f[0]
def c_opt_unwrap2(m, st, fr, fname, argv):
    o = argv[0]
    if disc_is(o, 0): raise Panic('unwrap on None')
    return o.payload[1].f[0]
def c_vec_push(m, st, fr, fname, argv): deref(argv[0]).items.append(argv[1]); return UNIT
def c_unit(m, st, fr, fname, argv): return UNIT
def c_oncecell_default(m, st, fr, fname, argv): return Agg([NONE()])
def c_oncecell_get_or_init(m, st, fr, fname, argv):
    cellref, clo = argv
    oc = deref(cellref)
    if isinstance(oc, Agg) and oc.f[0].disc == 1: return Ref(cellref.cell, cellref.path + (0, ('dc', 'Some'), 0))
    def then(saved, rv):
        oc2 = deref(saved[0]); oc2.f[0] = some(rv)
        return Ref(saved[0].cell, saved[0].path + (0, ('dc', 'Some'), 0))
    raise CallClosureK(clo, [], then, [cellref])
def c_rope_eq(m, st, fr, fname, argv):
    a, b = sv(argv[0]), sv(argv[1])
    ba, bb = r_bytes(a), r_bytes(b)
    if len(ba) != len(bb): return z3.BoolVal(False)
    return z3.simplify(z3.And([x == y for x, y in zip(ba, bb)])) if ba else z3.BoolVal(True)
def c_optrope_eq(m, st, fr, fname, argv):
    a, b = sv(argv[0]), sv(argv[1])
    if a.disc != b.disc: return z3.BoolVal(False)
    if a.disc == 0: return z3.BoolVal(True)
    return c_rope_eq(m, st, fr, fname, [a.payload[1].f[0], b.payload[1].f[0]])
def c_rope_get_byte_slice_to(m, st, fr, fname, argv):
    r, rg = sv(argv[0]), argv[1]
    e = z3.simplify(rg.f[0].e); assert z3.is_bv_value(e)
    e = e.as_long()
    if e > r_len(r): return NONE()
    return some(c_rope_byte_slice(m, st, fr, fname, [r, Agg([bv(0, 'usize'), bv(e, 'usize')])]))
def c_then_some2(m, st, fr, fname, argv):
    b = z3.simplify(argv[0])
    if z3.is_true(b): return some(argv[1])
    if z3.is_false(b): return NONE()
    return Enum(z3.If(b, z3.BitVecVal(1, 64), z3.BitVecVal(0, 64)), {1: Agg([argv[1]])})
def c_into_cow(m, st, fr, fname, argv): return Enum(0, {0: Agg([sv(argv[0])])})
def c_to_string(m, st, fr, fname, argv): return sv(argv[0])
def c_cow_deref(m, st, fr, fname, argv): return cow_str(argv[0])
def c_opt_i64_eq(m, st, fr, fname, argv):
    a, b = sv(argv[0]), sv(argv[1])
    if a.disc != b.disc: return z3.BoolVal(False)
    if a.disc == 0: return z3.BoolVal(True)
    return deref(a.payload[1].f[0]).e == deref(b.payload[1].f[0]).e
def c_rope_from_cow(m, st, fr, fname, argv): return rope(cow_str(argv[0]))
def c_opt_map_fnitem(m, st, fr, fname, argv):
    o, f = argv
    if disc_is(o, 0): return NONE()
    x = o.payload[1].f[0]
    if isinstance(f, tuple) and f[0] == 'fnitem':
        if 'Into' in f[1] or 'From' in f[1]: return some(cast(x, 'i64'))
        raise NotImplementedError('fnitem map ' + f[1])
    raise CallClosureK(f, [x], lambda saved, rv: some(rv), [])

contracts8 = dict(contracts7)
contracts8.update({
    r'^std::option::Option::<&(i64|u32|usize)>::copied$': c_opt_copied,
    r"^Rope::<'_>::is_empty$": (lambda m, st, fr, fname, argv: z3.BoolVal(r_len(sv(argv[0])) == 0)),
    r'^SourceMap::sources$': c_sources2, r'^SourceMap::names$': c_names2, r'^SourceMap::get_source_content$': c_get_source_content2,
    r"^<Cow<'_, str> as PartialEq<&str>>::eq$": c_cow_eq_str,
    r'^HashMap::<.*>::get::<': c_map_get2, r'^HashMap::<.*>::insert$': c_map_insert2,
    r'^<HashMap<.*> as BorrowMut<.*>>::borrow_mut$': c_identity,
    r'^std::option::Option::<.*>::map_or::<': c_opt_map_or,
    r'^std::option::Option::<.*>::cloned$': c_opt_cloned,
    r'^std::option::Option::<.*>::unwrap_or$': c_opt_unwrap_or,
    r'^std::option::Option::<.*>::unwrap$': c_opt_unwrap2,
    r'^std::option::Option::<u32>::map::<i64, fn': c_opt_map_fnitem,
    r'^Vec::<.*>::push$': c_vec_push, r'^Vec::<.*>::reserve$': c_unit,
    r'^<OnceCell<.*> as Default>::default$': c_oncecell_default,
    r'^OnceCell::<.*>::get_or_init::<': c_oncecell_get_or_init,
    r"^<Rope<'_> as PartialEq>::eq$": c_rope_eq,
    r"^<std::option::Option<Rope<'_>> as PartialEq>::eq$": c_optrope_eq,
    r"^Rope::<'_>::get_byte_slice::<RangeTo<usize>>$": c_rope_get_byte_slice_to,
    r'bool::<impl bool>::then_some::<': c_then_some2,
    r"^<&str as Into<Cow<'_, str>>>::into$": c_into_cow,
    r'^<S as ToString>::to_string$': c_to_string,
    r"^<Cow<'_, str> as Deref>::deref$": c_cow_deref,
    r'^<std::option::Option<&i64> as PartialEq>::eq$': c_opt_i64_eq,
    r"^<Rope<'_> as From<&Cow<'_, str>>>::from$": c_rope_from_cow,
    r'^<Vec<.*> as Default>::default$': c_vec_default,
})
order = sorted(contracts8, key=lambda k: (0 if ('WithIndices' in k or 'SourceMap' in k or 'MappingsDecoder' in k or 'S as' in k or '&str>::map' in k or 'OriginalLocation' in k or 'Rope' in k or 'i64' in k or 'Cow' in k or 'get::<' in k) else 1))
contracts8 = {k: contracts8[k] for k in order}

def mp(gl, gc, orig):
    o = NONE() if orig is None else some(Agg([bv(orig[0], 'u32'), orig[1] if isinstance(orig[1], IntV) else bv(orig[1], 'u32'), orig[2] if isinstance(orig[2], IntV) else bv(orig[2], 'u32'), NONE()]))
    return Agg([bv(gl, 'u32'), bv(gc, 'u32'), o])

def run(sym):
    m = Machine7(items, contracts8, loop_bound=128); m.smir_closures = SMIR
    st = State()
    ocol = IntV(z3.BitVec('ocol', 32), 'u32') if sym else bv(1, 'u32')
    if sym: st.pc.append(z3.ULT(ocol.e, 4))
    gen = S(m, "pq\nrs\n"); inner_text = S(m, "ab\ncd\n")
    outer = Cell(smap([mp(1, 0, (0, 1, 0)), mp(2, 0, (0, 2, ocol))], [S(m, "i.js")], [inner_text], []))
    inner = Cell(smap([mp(1, 0, (0, 1, 0)), mp(2, 0, (0, 2, 0)), mp(2, 1, (0, 5, 7))], [S(m, "o.js")], [S(m, "ab\ncd\n")], []))
    opts = Cell(Agg([z3.BoolVal(True), z3.BoolVal(False)]))
    cbs = [Cell(External('on_chunk')), Cell(External('on_source')), Cell(External('on_name'))]
    it = m.find('stream_chunks_of_combined_source_map')
    # (source, source_map, inner_source_name, inner_source: Option<Rope>, inner_source_map, remove_inner_source, on_chunk, on_source, on_name, options)
    m.push_frame(st, it, [gen, Ref(outer), S(m, "i.js"), NONE(), Ref(inner), z3.BoolVal(False)] + [Ref(c) for c in cbs] + [Ref(opts)], None, None)
    t0 = time.time()
    outs = m.run(st, until_depth=0)
    print(f'sym={sym}: paths={len(outs)} wall={time.time()-t0:.1f}s queries={m.queries}')
    for s2, rv in outs:
        if isinstance(rv, Panic): print('  PANIC', rv.msg[:100]); continue
        sol = z3.Solver(); sol.add(*s2.pc); sol.check(); mod = sol.model()
        desc = []
        for name_, args in s2.events:
            if name_ == 'on_chunk':
                ch, mpv = args
                r = ch.payload[1].f[0]
                txt = bytes(z3.simplify(b).as_long() for b in r_bytes(r))
                o = mpv.f[2]
                od = 'unmapped' if o.disc == 0 else 'src%s:%s:%s' % tuple(z3.simplify(x.e) for x in o.payload[1].f[0].f[:3])
                desc.append(f'{txt!r}@({z3.simplify(mpv.f[0].e)},{z3.simplify(mpv.f[1].e)})->{od}')
            elif name_ == 'on_source':
                desc.append('source#%s=%s' % (z3.simplify(args[0].e), str_key(args[1]).decode()))
        print('   ', ('ocol=%s: ' % mod.eval(ocol.e, model_completion=True)) if sym else '', ' | '.join(desc))
run(False)
run(True)

import sys, time
sys.path.insert(0, '/tmp/msx')
from msx4 import *
text = open('/tmp/mirprobe/mir.txt').read()
items = split_items(text)

def u32(x): return bv(x, 'u32')
def cstr(m, s): return m.operand_const('"%s"' % s.replace('\n', '\\n'))

def run(textv, chunks, start, end, content, verbose=False):
    m = Machine4(items, contracts4, loop_bound=64)
    T = cstr(m, textv)
    # scripted unmapped child with true positions
    evs, line, col, off = [], 1, 0, 0
    for c in chunks:
        piece = mkstr(s_arr(T), off, len(c))
        evs.append(('chunk', piece, u32(line), u32(col), None))
        off += len(c)
        if c.endswith('\n'): line += 1; col = 0
        else: col += len(c)
    child = ChildSpec('script', events=evs, events_final=evs, ret=(u32(line), u32(col)))
    repl = Agg([u32(start), u32(end), cstr(m, content), Enum(0, {}), Enum(1, {1: Agg([])})])
    rs = Cell(Agg([child, PyVec([repl]), Agg([PyVec([bv(0, 'usize')])]), Agg([z3.BoolVal(True)])]))
    opts = Cell(Agg([z3.BoolVal(True), z3.BoolVal(False)]))
    cbs = [Cell(External('on_chunk')), Cell(External('on_source')), Cell(External('on_name'))]
    it = m.find('replace_source::<impl at src/replace_source.rs:343:1: 343:50>::stream_chunks')
    st = State()
    m.push_frame(st, it, [Ref(rs), Ref(opts)] + [Ref(c) for c in cbs], None, None)
    outs = m.run(st, until_depth=0)
    res = []
    for s2, rv in outs:
        if isinstance(rv, Panic): res.append(('PANIC', rv.msg)); continue
        out = b''; line = 1; col = 0; ok = True; first_bad = None
        for name_, args in s2.events:
            if name_ != 'on_chunk': continue
            ch, mp = args
            r = ch.payload[1].f[0]
            bs = bytes(z3.simplify(b).as_long() for b in r_bytes(r))
            gl, gc = z3.simplify(mp.f[0].e).as_long(), z3.simplify(mp.f[1].e).as_long()
            if (gl, gc) != (line, col) and ok: ok = False; first_bad = (bs, (gl, gc), (line, col))
            out += bs
            for b in bs:
                if b == 10: line += 1; col = 0
                else: col += 1
        gi = tuple(z3.simplify(x.e).as_long() for x in rv.f)
        if gi != (line, col) and ok: ok = False; first_bad = ('end', gi, (line, col))
        res.append((out, ok, first_bad))
    return res

# ScriptFrame in msx2 passes rope_some(ev) for text; override to pass the real piece
import msx2
def step_script(self, st):
    fr = st.frames[-1]
    if isinstance(fr, ScriptFrame):
        evs = fr.spec.events
        if fr.idx < len(evs):
            ev = evs[fr.idx]; fr.idx += 1
            _, piece, line, col, orig = ev
            self.invoke_closure(st, fr.cbs[0], [some(rope(piece)), mk_mapping(line, col, orig)], None, None)
            return None
        st.frames.pop()
        rv = Agg(list(fr.spec.ret))
        cell, path = fr.ret_place
        if not path: cell.v = rv
        else: msx.set_path(cell, list(path), rv)
        self.jump(st, st.frames[-1], fr.ret_bb)
        return None
    return None
_m2step = msx2.Machine2.step
def step2(self, st):
    if isinstance(st.frames[-1], ScriptFrame): return step_script(self, st)
    return _m2step(self, st)
msx2.Machine2.step = step2

textv, chunks = "ab\ncd", ["ab\n", "cd"]
def model(textv, s, e, content):
    n = len(textv); s2, e2 = min(s, n), min(max(s, e), n)
    return (textv[:s2] + content + textv[e2:]).encode()
t0 = time.time(); nbad = 0; total = 0
for content in ("X", ""):
    for s in range(0, 7):
        for e in range(s, 7):
            total += 1
            try:
                res = run(textv, chunks, s, e, content)
            except Exception as ex:
                print('ERR', s, e, repr(content), type(ex).__name__, str(ex)[:150]); raise
            for out, ok, fb in res:
                exp = model(textv, s, e, content)
                tag = 'ok' if (ok and out == exp) else 'BAD'
                if tag == 'BAD':
                    nbad += 1
                    print(f'  replace({s},{e},{content!r}): out={out!r} expected={exp!r} positions_ok={ok} first_bad={fb}')
print(f'{total} scenarios, {nbad} bad, {time.time()-t0:.1f}s')

"""Path-exploring symbolic interpreter for the MIR text of /repo (engine S)."""
import re, time
import z3
from .mir import (Inconclusive, CrateIndex, parse_body, parse_place, split_top, strip_generics, INT_TYPES, SIGNED)
from .values import *


class Panic(Exception):
    def __init__(self, msg, where=''):
        self.msg, self.where = msg, where

    def __repr__(self): return 'Panic(%s @ %s)' % (self.msg, self.where)


class ForkRequest(Exception):
    def __init__(self, cond): self.cond = cond


class Blocked(Exception):
    """the running logical thread cannot proceed (lock held by another thread); the step is retried when it resumes"""


class PathDone(Exception):
    """the current path ends here (assume(false), blocked thread, ...)"""


PUSHED = object()      # returned by contracts that pushed frames themselves


class Frame:
    __slots__ = ('item', 'body', 'locals', 'bb', 'ip', 'ret', 'visits', 'subst')
    native = False

    def __init__(self, item, body):
        self.item, self.body = item, body
        self.locals = {}
        self.bb, self.ip = 0, 0
        self.ret = None
        self.visits = {}
        self.subst = None

    def clone_with(self, cl):
        nf = Frame.__new__(Frame)
        nf.item, nf.body, nf.bb, nf.ip = self.item, self.body, self.bb, self.ip
        nf.locals = {i: cl.cell(c) for i, c in self.locals.items()}
        nf.ret = cl.val(self.ret)
        nf.visits = dict(self.visits)
        nf.subst = self.subst
        return nf

    def local(self, i):
        c = self.locals.get(i)
        if c is None:
            c = Cell(None); self.locals[i] = c
        return c


class Native:
    """python-implemented frame. step(m, st) performs the next action; recv(m, st, v) receives a callee's result"""
    native = True
    ret = None

    def step(self, m, st): raise NotImplementedError

    def recv(self, m, st, v): pass

    def clone_with(self, cl):
        n = object.__new__(type(self))
        for k, v in self.__dict__.items():
            setattr(n, k, cl.val(v))
        return n


class CallThen(Native):
    """invoke `callee(args)`, then return then(saved, result) (or fork-free post-processing)"""

    def __init__(self, callee, args, then, saved, ret):
        self.callee, self.args, self.then, self.saved, self.ret = callee, args, then, saved, ret
        self.called = False; self.res = None; self.got = False

    def step(self, m, st):
        if not self.called:
            self.called = True
            m.invoke(st, self.callee, self.args, ('native',))
            return
        v = self.then(m, st, self.saved, self.res)
        m.do_return(st, v)

    def recv(self, m, st, v):
        self.res = v; self.got = True


class State:
    def __init__(self):
        self.frames = []
        self.pc = []
        self.events = []
        self.model = None
        self.decisions = {}
        self.extra = {}
        self.steps = 0
        self.retval = None
        self.tags = set()

    def clone(self):
        cl = Cloner()
        s2 = State.__new__(State)
        s2.frames = [f.clone_with(cl) for f in self.frames]
        s2.pc = list(self.pc)
        s2.events = [cl.val(e) for e in self.events]
        s2.model = self.model
        s2.decisions = dict(self.decisions)
        s2.extra = {k: cl.val(v) for k, v in self.extra.items()}
        s2.steps = self.steps
        s2.retval = cl.val(self.retval)
        s2.tags = set(self.tags)
        return s2


_re_binop = re.compile(r'^(Div|Rem|Add|Sub|Mul|BitAnd|BitOr|BitXor|Shl|Shr|Eq|Ne|Lt|Le|Gt|Ge|Cmp|AddWithOverflow|SubWithOverflow|MulWithOverflow|AddUnchecked|SubUnchecked|MulUnchecked|ShlUnchecked|ShrUnchecked|Offset)\((.*)\)$')
_re_unop = re.compile(r'^(Not|Neg|PtrMetadata)\((.*)\)$')
_re_cast = re.compile(r'^(.*) as (.*?) \((\w+)(?:\(.*\))?\)$')
_re_intlit = re.compile(r'^(-?\d+)_(u8|u16|u32|u64|usize|i8|i16|i32|i64|isize|u128|i128)$')
_re_minmax = re.compile(r'^(?:.*<impl )?(u8|u16|u32|u64|usize|i8|i16|i32|i64|isize)>?::(MIN|MAX|BITS)$')


def _unescape(s):
    """rust string-literal escapes as printed by the MIR pretty printer -> bytes"""
    out = bytearray(); i = 0
    while i < len(s):
        c = s[i]
        if c == '\\':
            d = s[i + 1]
            if d == 'n': out.append(10); i += 2
            elif d == 't': out.append(9); i += 2
            elif d == 'r': out.append(13); i += 2
            elif d == '0': out.append(0); i += 2
            elif d == '\\': out.append(92); i += 2
            elif d == '"': out.append(34); i += 2
            elif d == "'": out.append(39); i += 2
            elif d == 'x': out.append(int(s[i + 2:i + 4], 16)); i += 4
            elif d == 'u':
                j = s.index('}', i); out.extend(chr(int(s[i + 3:j], 16)).encode('utf-8')); i = j + 1
            else: raise Inconclusive('escape \\' + d)
        else:
            out.extend(c.encode('utf-8')); i += 1
    return bytes(out)


def split_generic_args(name):
    """-> (type args of the self type, method args) of a call-site name, lifetimes removed"""
    def args_of(txt):
        return [q for q in split_top(txt) if not q.startswith("'")]
    name = name.strip()
    margs = []
    if name.endswith('>') and '::<' in name:
        depth, i = 0, len(name) - 1
        while i >= 0:
            ch = name[i]
            if ch == '>' and name[i - 1] not in '-=': depth += 1
            elif ch == '<':
                depth -= 1
                if depth == 0: break
            i -= 1
        if i >= 2 and name[i - 2:i] == '::':
            margs = args_of(name[i + 1:-1]); name = name[:i - 2]
    targs = []
    m = re.match(r'^<(.*)>::[A-Za-z_0-9]+$', name)
    if m:
        inner = m.group(1)
        depth, pos = 0, None
        for i in range(len(inner)):
            ch = inner[i]
            if ch in '<([': depth += 1
            elif ch in ')]' or (ch == '>' and inner[i - 1] not in '-='): depth -= 1
            elif depth == 0 and inner.startswith(' as ', i): pos = i; break
        x = inner if pos is None else inner[:pos]
        mm = re.match(r'^[^<]*<(.*)>\s*$', x.strip())
        if mm: targs = args_of(mm.group(1))
    else:
        mm = re.match(r'^(.*)::<(.*)>::[A-Za-z_0-9]+$', name)
        if mm: targs = args_of(mm.group(2))
    return targs, margs


def apply_subst(name, subst):
    if not subst: return name
    def rep(mo):
        w = mo.group(0)
        return subst.get(w, w)
    return re.sub(r"(?<![A-Za-z0-9_:'])[A-Z][A-Za-z0-9]?(?![A-Za-z0-9_])", rep, name)


class Machine:
    def __init__(self, idx, contracts, loop_bound=64, timeout_s=None):
        self.idx = idx
        self.items = idx.items
        self.contracts = [(re.compile(p), f) for p, f in contracts]
        self._cmemo = {}
        self.solver = z3.Solver()
        self._stack = []
        self.queries = 0
        self.solver_time = 0.0
        self.loop_bound = loop_bound
        self.const_cache = {}
        self.cur_ret = None
        self.forks = 0
        self.items_used = {}
        self.contracts_used = set()
        self.max_steps = 2_000_000
        self.deadline = None if timeout_s is None else time.time() + timeout_s
        self.hooks = {}
        self.spawned = []

    # ------------------------------------------------------------------------------------ solver
    def check(self, pc, extra=None):
        """satisfiability of pc (+extra). The solver keeps the longest common prefix of the previous query's path
        condition asserted (one scope per conjunct), so depth-first exploration re-uses its work."""
        self.queries += 1
        t = time.time()
        stack = self._stack
        k = 0
        n = min(len(stack), len(pc))
        while k < n and stack[k] is pc[k]: k += 1
        if len(stack) > k:
            self.solver.pop(len(stack) - k); del stack[k:]
        for c in pc[k:]:
            self.solver.push()
            if c is not True: self.solver.add(c)
            stack.append(c)
        try:
            if extra is not None:
                self.solver.push(); self.solver.add(extra)
            r = self.solver.check()
            mdl = self.solver.model() if r == z3.sat else None
        finally:
            if extra is not None: self.solver.pop()
            self.solver_time += time.time() - t
        if r == z3.unknown:
            raise Inconclusive('solver returned unknown: ' + self.solver.reason_unknown())
        return (r == z3.sat), mdl

    def feasible(self, st, cond):
        c = conc_bool(cond)
        if c is not None: return c
        if st.model is not None:
            v = st.model.eval(cond, model_completion=True)
            if z3.is_true(v): return True
        ok_, _ = self.check(st.pc, cond)
        return ok_

    def valid(self, st, cond):
        """cond holds on every model of the path condition"""
        c = conc_bool(cond)
        if c is not None: return c
        return not self.feasible(st, z3.Not(cond))

    def branch(self, st, cond):
        """decide a Boolean; forks the path (by re-executing the current step) when both outcomes are feasible"""
        c = conc_bool(cond)
        if c is not None: return c
        cond = z3.simplify(cond)
        key = cond.get_id()
        d = st.decisions.get(key)
        if d is not None and d[0].eq(cond): return d[1]     # (the expression is kept alive: ids are reused after GC)
        side = None
        if st.model is not None:
            v = st.model.eval(cond, model_completion=True)
            side = True if z3.is_true(v) else (False if z3.is_false(v) else None)
        if side is None:
            okT, mdl = self.check(st.pc, cond)
            if not okT:
                st.decisions[key] = (cond, False); return False
            st.model = mdl; side = True
        # `side` is feasible; is the other?
        other = z3.Not(cond) if side else cond
        okO, mdlO = self.check(st.pc, other)
        if not okO:
            st.decisions[key] = (cond, side)
            return side
        raise ForkRequest((cond, key, side, mdlO))

    def assume(self, st, cond):
        c = conc_bool(cond)
        if c is True: return
        if c is False: raise PathDone()
        if st.model is not None and z3.is_true(st.model.eval(cond, model_completion=True)):
            st.pc.append(cond); return
        ok_, mdl = self.check(st.pc, cond)
        if not ok_: raise PathDone()
        st.pc.append(cond); st.model = mdl

    def concretize(self, st, v, candidates):
        """pick the concrete value of IntV v among candidates (forks)"""
        c = conc_int(v)
        if c is not None: return c
        e = zi(v)
        for k in candidates:
            if self.branch(st, e == z3.BitVecVal(k, e.size())): return k
        raise PathDone()      # value outside the candidate set: callers pass exhaustive candidate sets

    # ------------------------------------------------------------------------------------ constants
    def eval_const_item(self, name):
        if name in self.const_cache: return copy_val(self.const_cache[name])
        it = self.items.get(name)
        if it is None:
            # promoted constants of generic functions are referred to with generic arguments
            nm = re.sub(r"::<[^{}]*?>(?=::)", '', name)
            it = self.items.get(nm)
            segs = nm.split('::')
            while it is None and len(segs) > 1:
                segs = segs[1:]; it = self.items.get('::'.join(segs))
                if it is not None and it.kind == 'fn': it = None
        if it is None:
            last = name.split('::')[-1]
            cands = [k for k, v in self.items.items() if v.kind != 'fn' and (k == last or k.endswith('::' + last))]
            if len(cands) == 1: it = self.items[cands[0]]
        if it is None or it.kind == 'fn':
            raise Inconclusive('constant ' + name)
        if it.body is None:
            m = re.match(r'^(?:const|static)(?: mut)? .*?: (.*?) = (.*);$', it.header)
            v = self.operand_const(m.group(2)[6:] if m.group(2).startswith('const ') else m.group(2))
        else:
            st = State()
            fr = Frame(it, parse_body(it)); st.frames.append(fr)
            outs = self.run(st)
            if len(outs) != 1 or outs[0][0] != 'ret':
                raise Inconclusive('constant evaluation of %s did not produce one value' % name)
            v = outs[0][2]
        self.const_cache[name] = v
        self.items_used.setdefault(it.name, it)
        return copy_val(v)

    def operand_const(self, s):
        s = s.strip()
        m = _re_intlit.match(s)
        if m: return iv(int(m.group(1)), m.group(2))
        if s == 'true': return True
        if s == 'false': return False
        if s == '()': return UNIT
        if s.startswith('"') and s.endswith('"'):
            return mkstr(_unescape(s[1:-1]))
        if s.startswith('b"') and s.endswith('"'):
            raw = _unescape(s[2:-1])
            return Ref(Cell(Agg([IntV(x, 'u8') for x in raw])))
        m = re.match(r"^b'(.*)'$", s)
        if m: return IntV(_unescape(m.group(1))[0], 'u8')
        m = re.match(r"^'(.*)'$", s)
        if m: return IntV(ord(_unescape(m.group(1)).decode('utf-8')), 'char')
        mm = _re_minmax.match(s)
        if mm:
            ty = mm.group(1); w = INT_TYPES[ty]; sg = ty in SIGNED
            if mm.group(2) == 'BITS': return IntV(w, 'u32')
            val = (-(1 << (w - 1)) if sg else 0) if mm.group(2) == 'MIN' else ((1 << (w - 1)) - 1 if sg else (1 << w) - 1)
            return iv(val, ty)
        m = re.match(r'^ZeroSized: (\{closure@[^}]*\})$', s)
        if m: return ClosureV(m.group(1), [])
        if s.startswith('ZeroSized: '):
            t = s[11:]
            if t.startswith('fn(') or '{' in t:
                mm = re.search(r'\{(.*)\}$', t)
                if mm: return FnItem(mm.group(1))
            return UNIT
        m = re.match(r'^\{closure@[^}]*\}$', s)
        if m: return ClosureV(s, [])
        # derive-generated marker structs: `__Visitor::<'_> {{ marker: PhantomData::<T>, lifetime: PhantomData::<&()> }}`
        m = re.match(r"^([A-Za-z_][A-Za-z_0-9]*)(?:::<[^{}]*>)? \{\{ (.*) \}\}$", s)
        if m and all('PhantomData' in part for part in m.group(2).split(', ') if ':' in part):
            return Agg([UNIT for _ in m.group(2).split(', ')], m.group(1))
        # enum unit variant constant  e.g. ReplacementEnforce::Normal
        segs = strip_generics(s).split('::')
        if len(segs) >= 2 and segs[-2] in self.idx.enums and segs[-1] in self.idx.enums[segs[-2]]:
            return Enum(segs[-2], self.idx.enums[segs[-2]].index(segs[-1]), {})
        if re.match(r'^[A-Za-z_<][A-Za-z_0-9:<>{}#\[\]\' ,@./&-]*$', s):
            try:
                return self.eval_const_item(s)
            except Inconclusive:
                return FnItem(s)
        raise Inconclusive('const operand ' + s)

    # ------------------------------------------------------------------------------------ places
    def resolve(self, st, fr, place_s):
        loc, projs = parse_place(place_s)
        cell, path = fr.local(loc), []
        for pr in projs:
            k = pr[0]
            if k == 'deref':
                v = get_path(cell.v, path)
                if isinstance(v, StrV):
                    # &str / &[u8] views are values of the text model: materialise the bytes for indexing
                    cell, path = Cell(Agg([IntV(b, 'u8') for b in v.bytes()]), tag=('strview', v)), []
                    continue
                if not isinstance(v, Ref):
                    raise Inconclusive('deref of non-reference %r in %s (%s)' % (v, place_s, fr.item.name))
                if v.cell.freed: raise UseAfterFree(v)
                cell, path = v.cell, list(v.path)
            elif k == 'field': path.append(pr[1])
            elif k == 'downcast':
                v = get_path(cell.v, path)
                if not isinstance(v, Enum): raise Inconclusive('downcast of non-enum %r in %s' % (v, place_s))
                vi = self.idx.variant_index(v.ty, pr[1])
                if vi not in v.payload: v.payload[vi] = Agg([])
                path.append(('dc', vi))
            elif k == 'cindex':
                if pr[2]:
                    v = get_path(cell.v, path); path.append(len(v.f) - pr[1])
                else: path.append(pr[1])
            elif k == 'index':
                ivv = fr.local(pr[1]).v
                c = conc_int(ivv)
                if c is not None: path.append(c)
                else: path.append(('sym', zi(ivv)))
            else:
                raise Inconclusive('projection ' + k)
        return cell, path

    def read(self, st, fr, place_s):
        cell, path = self.resolve(st, fr, place_s)
        v = get_path(cell.v, path)
        if v is None:
            raise Inconclusive('read of uninitialised place %s in %s' % (place_s, fr.item.name))
        return v

    def write(self, st, fr, place_s, val):
        cell, path = self.resolve(st, fr, place_s)
        set_path(cell, path, val)

    def operand(self, st, fr, s):
        if s.startswith('copy '): return copy_val(self.read(st, fr, s[5:]))
        if s.startswith('move '): return self.read(st, fr, s[5:])
        if s.startswith('const '):
            v = self.operand_const(s[6:])
            if isinstance(v, FnItem) and fr.subst: v = FnItem(apply_subst(v.name, fr.subst))
            return v
        return FnItem(apply_subst(s, fr.subst))

    # ------------------------------------------------------------------------------------ rvalues
    def rvalue(self, st, fr, s, dest):
        m = _re_binop.match(s)
        if m:
            a, b = [self.operand(st, fr, x) for x in split_top(m.group(2))]
            return binop(m.group(1), a, b)
        m = _re_unop.match(s)
        if m:
            a = self.operand(st, fr, m.group(2))
            if m.group(1) == 'Not':
                if isinstance(a, IntV): return IntV(mask(~a.e, a.ty), a.ty) if isinstance(a.e, int) else IntV(~a.e, a.ty)
                return b_not(a)
            if m.group(1) == 'Neg':
                return IntV(mask(-a.e, a.ty), a.ty) if isinstance(a.e, int) else IntV(-a.e, a.ty)
            return self.len_of(sv(a) if isinstance(a, Ref) else a)
        if s.startswith(('copy ', 'move ', 'const ')):
            m = _re_cast.match(s)
            if m:
                a = self.operand(st, fr, m.group(1)); ty, kind = m.group(2), m.group(3)
                if kind == 'IntToInt':
                    if ty not in INT_TYPES: raise Inconclusive('cast to ' + ty)
                    return cast(a, ty)
                if kind in ('PointerCoercion', 'PtrToPtr', 'Transmute', 'PointerExposeProvenance', 'Subtype'):
                    return a
                raise Inconclusive('cast kind ' + kind)
            return self.operand(st, fr, s)
        if s.startswith('&') and not s.startswith('&&'):
            m = re.match(r'^&(?:mut |raw const \(fake\) |raw mut \(fake\) |raw const |raw mut |fake shallow |fake )?(.*)$', s)
            cell, path = self.resolve(st, fr, m.group(1))
            if not path and isinstance(cell.tag, tuple) and cell.tag[0] == 'strview': return cell.tag[1]     # reborrow of a str view
            return Ref(cell, path)
        if s.startswith('discriminant('):
            v = self.read(st, fr, s[13:-1])
            if not isinstance(v, Enum): raise Inconclusive('discriminant of %r' % (v,))
            ty = 'isize'
            mm = re.match(r'^_(\d+)$', dest or '')
            if mm:
                t = fr.body.locals.get(int(mm.group(1)))
                if t in INT_TYPES: ty = t
            if isinstance(v.disc, int): return IntV(mask(v.disc, ty), ty)
            return cast(IntV(v.disc, 'isize'), ty)
        if s.startswith('Len('):
            return self.len_of(self.read(st, fr, s[4:-1]))
        if s.startswith('CopyForDeref('):
            return copy_val(self.read(st, fr, s[13:-1]))
        if s.startswith(('UbChecks', 'ContractChecks', 'OverflowChecks')): return False
        # aggregates
        if s.startswith('[') and s.endswith(']'):
            inner = s[1:-1]
            parts = split_top(inner)
            if len(parts) == 1:
                mm = re.match(r'^(.*); (\d+)$', inner)
                if mm:
                    v = self.operand(st, fr, mm.group(1))
                    return Agg([copy_val(v) for _ in range(int(mm.group(2)))])
            return Agg([self.operand(st, fr, x) for x in parts])
        if s.startswith('(') and s.endswith(')'):
            return Agg([self.operand(st, fr, x) for x in split_top(s[1:-1])])
        m = re.match(r'^(\{closure@[^}]*\})(?: \{ (.*) \})?$', s)
        if m:
            ops = [f.split(': ', 1)[1] for f in split_top(m.group(2))] if m.group(2) else []
            sm = self.idx.smir_closures.get((m.group(1), dest))
            if sm:
                cands = [o for o in sm if len(o) >= len(ops)]
                lens = {len(o) for o in sm}
                if len(lens) != 1 and len(sm) > 1:
                    # several aggregates with the same tag and destination but different shapes: cannot pair them up
                    raise Inconclusive('ambiguous closure aggregate ' + m.group(1))
                full = sm[0]
                if len(full) != len(ops):
                    ops = [o if o.startswith(('move ', 'copy ', 'const ')) else 'copy ' + o for o in full]
            cv = ClosureV(m.group(1), [self.operand(st, fr, o) for o in ops])
            cv.subst = fr.subst
            return cv
        return self.adt_aggregate(st, fr, s)

    def adt_aggregate(self, st, fr, s):
        # Path::<..>::Variant(ops) | Path { f: op } | Path(ops) | Path::Variant
        m = re.match(r'^(.*?) \{ (.*) \}$', s)
        if m and not m.group(1).endswith(')'):
            path, ops = m.group(1), [f.split(': ', 1)[1] for f in split_top(m.group(2))]
        else:
            if s.endswith(')'):
                from .mir import _split_call
                path, args = _split_call(s[:-1])
                ops = split_top(args) if args.strip() else []
            else:
                path, ops = s, []
        segs = [x for x in strip_generics(path).split('::') if x]
        if not segs or not re.match(r'^[A-Za-z_]', segs[-1]):
            raise Inconclusive('rvalue ' + s)
        vals = [self.operand(st, fr, o) for o in ops]
        if len(segs) >= 2 and segs[-2] in self.idx.enums and segs[-1] in self.idx.enums[segs[-2]]:
            vi = self.idx.enums[segs[-2]].index(segs[-1])
            return Enum(segs[-2], vi, {vi: Agg(vals)})
        return Agg(vals, segs[-1])

    def len_of(self, v):
        if isinstance(v, Ref): v = sv(v)
        if isinstance(v, StrV): return IntV(v.len, 'usize')
        if isinstance(v, Agg): return IntV(len(v.f), 'usize')
        raise Inconclusive('Len of %r' % (v,))

    # ------------------------------------------------------------------------------------ run
    def run(self, st0, until_depth=0):
        """explore all paths from st0; returns [('ret'|'panic'|'uaf', state, value)]"""
        done, work = [], [st0]
        while work:
            st = work.pop()
            try:
                while True:
                    if len(st.frames) <= until_depth:
                        h = self.hooks.get('idle')
                        if h is not None and h(self, st): continue          # another logical thread is runnable
                        done.append(('ret', st, st.retval)); break
                    if self.deadline is not None and time.time() > self.deadline:
                        raise Inconclusive('time limit of this job reached')
                    st.steps += 1
                    if st.steps > self.max_steps: raise Inconclusive('step limit reached')
                    try:
                        self.step(st)
                        if st.decisions: st.decisions = {}
                        if self.spawned:
                            work.extend(self.spawned); self.spawned = []
                    except Blocked:
                        self.spawned = []
                        r = self.hooks['blocked'](self, st)
                        if r == 'deadlock':
                            done.append(('deadlock', st, None)); break
                    except ForkRequest as f:
                        self.spawned = []
                        cond, key, side, mdl_other = f.cond
                        self.forks += 1
                        s2 = st.clone()
                        st.pc.append(cond if side else z3.Not(cond)); st.decisions[key] = (cond, side)
                        s2.pc.append(z3.Not(cond) if side else cond); s2.decisions[key] = (cond, not side); s2.model = mdl_other
                        work.append(s2)
            except (AttributeError, TypeError, KeyError, IndexError, AssertionError) as e:
                import traceback
                stack = ' <- '.join('%s bb%d#%d' % (f.item.name[-60:], f.bb, f.ip) if not f.native else type(f).__name__ for f in reversed(st.frames[-4:]))
                cur = ''
                if st.frames and not st.frames[-1].native:
                    fr = st.frames[-1]
                    try: cur = repr(fr.body.blocks[fr.bb][fr.ip])[:300]
                    except Exception: pass
                raise Inconclusive('interpreter error %r at [%s] stmt %s\n%s' % (e, stack, cur, traceback.format_exc()[-800:]))
            except Panic as p:
                if not p.where and st.frames:
                    fr = st.frames[-1]
                    p.where = fr.item.name + ' bb%d' % fr.bb if not fr.native else type(fr).__name__
                done.append(('panic', st, p))
            except UseAfterFree as u:
                done.append(('uaf', st, u))
            except PathDone:
                pass
        return done

    def step(self, st):
        fr = st.frames[-1]
        if fr.native:
            fr.step(self, st); return
        s = fr.body.blocks[fr.bb][fr.ip]
        k = s[0]
        if k == 'assign':
            v = self.rvalue(st, fr, s[2], s[1])
            self.write(st, fr, s[1], v)
            fr.ip += 1
        elif k == 'nop':
            fr.ip += 1
        elif k == 'goto':
            self.jump(st, fr, s[1])
        elif k == 'call':
            self.do_call(st, fr, s)
        elif k == 'switch':
            v = self.operand(st, fr, s[1])
            if isinstance(v, (bool, z3.BoolRef)):
                b = self.branch(st, zb(v)) if not isinstance(v, bool) else v
                val = 1 if b else 0
                for kk, bbn in s[2]:
                    if kk is None or kk == val:
                        self.jump(st, fr, bbn); return
                raise Panic('switchInt: no target')
            c = conc_int(v)
            if c is None:
                e = zi(v); w = e.size()
                for kk, bbn in s[2]:
                    if kk is None:
                        self.jump(st, fr, bbn); return
                    if self.branch(st, e == z3.BitVecVal(kk, w)):
                        self.jump(st, fr, bbn); return
                raise Panic('switchInt: no target')
            if v.ty in SIGNED: pass
            for kk, bbn in s[2]:
                if kk is None or (kk & ((1 << INT_TYPES[v.ty]) - 1)) == c:
                    self.jump(st, fr, bbn); return
            raise Panic('switchInt: no target')
        elif k == 'assert':
            v = self.operand(st, fr, s[2])
            okc = b_not(v) if s[1] else v
            if self.branch(st, zb(okc)) if not isinstance(okc, bool) else okc:
                self.jump(st, fr, s[4])
            else:
                raise Panic(s[3])
        elif k == 'return':
            self.do_return(st, fr.local(0).v if fr.local(0).v is not None else UNIT)
        elif k == 'drop':
            h = self.hooks.get('drop')
            if h:
                try: v = self.read(st, fr, s[1])
                except Inconclusive: v = None
                if v is not None: h(self, st, v)
            self.jump(st, fr, s[2])
        elif k == 'setdisc':
            v = self.read(st, fr, s[1]); v.disc = s[2]; fr.ip += 1
        elif k == 'unreachable':
            raise Panic('unreachable reached')
        else:
            raise Inconclusive('terminator kind ' + k)

    def jump(self, st, fr, bbn):
        fr.bb, fr.ip = bbn, 0
        n = fr.visits.get(bbn, 0) + 1
        fr.visits[bbn] = n
        if n > self.loop_bound:
            raise Inconclusive('loop bound %d exceeded at %s bb%d' % (self.loop_bound, fr.item.name, bbn))

    # ------------------------------------------------------------------------------------ calls
    def deliver(self, st, ret, v):
        if ret is None:
            st.retval = v; return
        if ret[0] == 'place':
            _, cell, path, bbn = ret
            set_path(cell, list(path), v)
            caller = st.frames[-1]
            if bbn is None: raise PathDone()
            self.jump(st, caller, bbn)
        elif ret[0] == 'native':
            st.frames[-1].recv(self, st, v)
        else:
            raise Inconclusive('return target ' + repr(ret))

    def do_return(self, st, v):
        fr = st.frames.pop()
        self.deliver(st, fr.ret, v)

    def do_call(self, st, fr, s):
        _, dest, fname, args, retbb = s
        if fr.subst: fname = apply_subst(fname, fr.subst)
        argv = [self.operand(st, fr, a) for a in args]
        cell, path = self.resolve(st, fr, dest)
        ret = ('place', cell, tuple(path), retbb)
        self.call_fn(st, fname, argv, ret)

    def call_fn(self, st, fname, argv, ret):
        c = self._cmemo.get(fname, 0)
        if c == 0:
            c = None
            for pat, fn in self.contracts:
                if pat.search(fname):
                    c = fn; break
            self._cmemo[fname] = c
        if c is not None:
            self.cur_ret = ret
            self.contracts_used.add(c.__name__)
            res = c(self, st, fname, argv)
            if res is PUSHED: return
            if res is NotImplemented:
                pass
            else:
                self.deliver(st, ret, res); return
        it = self.lookup(fname, argv)
        if it is None:
            raise Inconclusive('no contract or crate item for call ' + fname)
        self.push_frame(st, it, argv, ret, fname)

    def subst_for(self, it, fname, argv=None):
        if not fname: return None
        targs, margs = split_generic_args(fname)
        sub = {}
        if it.impl_key is not None:
            iparams, pat = self.idx.impl_generics.get(it.impl_key, ([], []))
            for p_, a_ in zip(pat, targs):
                if p_ in iparams and a_ != p_: sub[p_] = a_
            if it.impl_ty in iparams and argv:
                # blanket impl `impl<E: ..> Trait for E`: the parameter is the receiver's concrete type
                rt = self.runtime_type(argv[0])
                if rt: sub[it.impl_ty] = rt
        meth = it.name.split('::')[-1]
        mps = self.idx.fn_generics.get(meth)
        if mps:
            for p_, a_ in zip(mps, margs):
                if a_ != p_ and not a_.startswith('{closure') and not a_.startswith('impl ') and not a_.startswith('fn('): sub[p_] = a_
        return sub or None

    def push_frame(self, st, it, argv, ret, fname=None):
        body = parse_body(it)
        self.items_used.setdefault(it.name, it)
        nf = Frame(it, body)
        nf.subst = self.subst_for(it, fname, argv)
        for i, a in enumerate(argv): nf.local(i + 1).v = a
        nf.ret = ret
        st.frames.append(nf)
        if len(st.frames) > 200: raise Inconclusive('call depth exceeded')

    def invoke(self, st, callee, args, ret):
        """call a closure / fn item / recorder value with positional args"""
        target = callee
        cref = None
        while isinstance(target, Ref):
            cref = target; target = deref(target)
        if isinstance(target, External):
            vals = [snapshot(a) for a in args]
            st.events.append((target.name, vals))
            r = UNIT
            if target.fn is not None: r = target.fn(self, st, vals)
            self.deliver(st, ret, r); return
        if isinstance(target, ClosureV):
            it = self.idx.closure_items.get(target.tag)
            if it is None: raise Inconclusive('closure body not found: ' + target.tag)
            body = parse_body(it)
            self.items_used.setdefault(it.name, it)
            nf = Frame(it, body)
            first = body.locals[1]
            if first.startswith('&'):
                nf.local(1).v = cref if cref is not None else Ref(Cell(target))
            else:
                nf.local(1).v = target
            for i, a in enumerate(args): nf.local(i + 2).v = a
            nf.ret = ret
            nf.subst = getattr(target, 'subst', None)
            st.frames.append(nf)
            return
        if isinstance(target, FnItem):
            self.call_fn(st, target.name, list(args), ret); return
        if isinstance(target, Native) or hasattr(target, 'invoke'):
            target.invoke(self, st, args, ret); return
        raise Inconclusive('invoke of %r' % (target,))

    # ------------------------------------------------------------------------------------ item lookup
    def runtime_type(self, v):
        v = sv(v) if isinstance(v, Ref) else v
        if isinstance(v, StrV): return 'str'
        if isinstance(v, RopeV): return 'Rope'
        if isinstance(v, Agg) and v.ty: return v.ty
        if isinstance(v, Enum): return v.ty
        if hasattr(v, 'rtype'): return v.rtype
        return None

    def lookup(self, fname, argv):
        key = fname
        name = fname.strip()
        # trailing generic args of the method
        if name.endswith('>') and '::<' in name:
            depth, i = 0, len(name) - 1
            while i >= 0:
                ch = name[i]
                if ch == '>' and name[i - 1] not in '-=': depth += 1
                elif ch == '<':
                    depth -= 1
                    if depth == 0: break
                i -= 1
            if i >= 2 and name[i - 2:i] == '::':
                name = name[:i - 2]
        it = self.items.get(name)
        if it is not None and it.kind == 'fn': return it
        m = re.match(r'^<(.*)>::([A-Za-z_0-9]+)$', name)
        if m:
            inner, meth = m.group(1), m.group(2)
            # split "X as Trait" at top level
            depth, pos = 0, None
            for i in range(len(inner)):
                ch = inner[i]
                if ch in '<([': depth += 1
                elif ch in ')]' or (ch == '>' and inner[i - 1] not in '-='): depth -= 1
                elif depth == 0 and inner.startswith(' as ', i): pos = i; break
            if pos is None: x, trait = inner, None
            else: x, trait = inner[:pos], inner[pos + 4:]
            tb = strip_generics(trait).strip().split('::')[-1] if trait else None
            xs = x.strip()
            if xs.startswith('Arc<dyn') or xs.startswith('std::sync::Arc<dyn'): tyb = 'BoxSource'
            else:
                tyb = strip_generics(xs).replace('&', '').replace('mut ', '').replace("'_ ", '').strip().split('::')[-1]
                tyb = re.sub(r"^'[a-z_]+ ", '', tyb)
                if xs.lstrip('&(').startswith('dyn '): tyb = 'dyn ' + tyb.rstrip(')')
            cands = self.idx.impls.get((tyb, tb, meth))
            if cands: return self._pick(cands, fname)
            # dynamic dispatch on the receiver
            if argv:
                rt = self.runtime_type(argv[0])
                # dyn dispatch through Arc / Box layers: the receiver becomes the innermost reference
                while isinstance(argv[0], Ref) and isinstance(deref(argv[0]), Ref): argv[0] = deref(argv[0])
                if rt:
                    cands = self.idx.impls.get((rt, tb, meth))
                    if cands: return self._pick(cands, fname)
                    # blanket impls: impl<T..> Trait for T
                    for g in ('T', 'H', 'E', 'S'):
                        cands = self.idx.impls.get((g, tb, meth))
                        if cands: return self._pick(cands, fname)
            return None
        segs = [x for x in strip_generics(name).split('::') if x]
        meth = segs[-1]
        if len(segs) >= 2:
            tyb = segs[-2]
            cands = self.idx.impls.get((tyb, None, meth))
            if cands: return self._pick(cands, fname)
        # free function addressed by suffix
        cands = [v for k, v in self.items.items() if v.kind == 'fn' and (k == meth or k.endswith('::' + meth)) and '<impl at' not in k and '{closure' not in k]
        if len(cands) == 1: return cands[0]
        return None

    def _pick(self, cands, fname):
        if len(cands) == 1: return cands[0][0]
        # several impls with the same (type base, trait base, method): disambiguate by the trait's generic arguments
        fn = fname.replace(' ', '')
        m = re.search(r' as ([A-Za-z_:]+)(<.*>)?>::[A-Za-z_0-9]+', fname)
        targs = (m.group(2) or '') if m else ''
        best = []
        for it, trait_full, ty_full in cands:
            tf = re.sub(r"'[a-z_]+\s*,?\s*", '', trait_full or '').replace(' ', '')
            mm = re.match(r'^[A-Za-z_:]+(<.*>)?$', tf)
            ta = (mm.group(1) or '') if mm else ''
            if targs:
                # lifetimes and module paths do not take part ('&std::string::String' at the call site vs '&'a String' in the impl header)
                norm = lambda x: re.sub(r'\b(?:[a-z_][a-z_0-9]*::)+', '', re.sub(r"<>", '', re.sub(r"'[a-z_]+\s*,?\s*", '', x).replace(' ', '')))
                if norm(ta) == norm(targs): return it
            else:
                # no explicit argument at the call site = the default `Rhs = Self`
                tyb = re.sub(r"<.*>", '', ty_full).strip()
                if ta == '' or re.sub(r"<.*>$", '', ta[1:-1]).strip() == tyb or ta[1:-1] == 'Self': best.append(it)
        if len(best) == 1: return best[0]
        if targs:
            for it, trait_full, ty_full in cands:
                if trait_full and trait_full.replace(' ', '') in fn: return it
        raise Inconclusive('ambiguous impl for %s: %s' % (fname, [c[1] for c in cands]))


def snapshot(v):
    """value snapshot for recorded events (detached from later mutation)"""
    if isinstance(v, Ref):
        try: return ('ref', snapshot(deref(v)))
        except Exception: return ('ref', None)
    return copy_val(v)

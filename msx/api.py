"""Loading the MIR of /repo's working tree and constructing machines."""
import os, subprocess, hashlib, time, json, sys
from . import mir as _mir
from .mir import CrateIndex, Inconclusive
from .machine import Machine, State, Frame, Panic
from . import contracts as _contracts

VERIF = os.path.dirname(os.path.dirname(os.path.abspath(__file__)))
REPO = os.environ.get('VERIF_REPO', '/repo')


def source_hash(repo=REPO):
    h = hashlib.sha256()
    for root, _, files in sorted(os.walk(os.path.join(repo, 'src'))):
        for fn in sorted(files):
            p = os.path.join(root, fn)
            h.update(p.encode()); h.update(open(p, 'rb').read())
    for fn in ('Cargo.toml', 'Cargo.lock'):
        h.update(open(os.path.join(repo, fn), 'rb').read())
    return h.hexdigest()[:16]


_loaded = {}


def dump_dir(repo=REPO):
    """run the MIR dump for the current working tree of the repo. One dump per source state and process tree:
    the parent check process dumps, its worker processes reuse the directory through VERIF_MIR_DIR."""
    d = os.environ.get('VERIF_MIR_DIR')
    if d and os.path.exists(os.path.join(d, 'mir.txt')):
        return d, 0.0
    h = source_hash(repo)
    d = os.path.join(VERIF, '.cache', 'mir', '%s-%d' % (h, os.getpid()))
    reuse = os.environ.get('VERIF_MIR_REUSE')          # development only: reuse a dump keyed by the source hash
    if reuse:
        d = os.path.join(VERIF, '.cache', 'mir', h)
        if os.path.exists(os.path.join(d, 'mir.txt')):
            os.environ['VERIF_MIR_DIR'] = d
            return d, 0.0
    t = time.time()
    r = subprocess.run([os.path.join(VERIF, 'tools', 'mirdump.sh'), d], capture_output=True, text=True,
                       env=dict(os.environ, VERIF_REPO=repo))
    if r.returncode != 0:
        raise Inconclusive('MIR dump failed (does the tree compile?):\n' + r.stdout[-3000:] + r.stderr[-3000:])
    os.environ['VERIF_MIR_DIR'] = d
    return d, time.time() - t


def load(flavour='mir', repo=REPO):
    """flavour: 'mir' (overflow checks on = debug semantics) | 'mir_rel' (release semantics)"""
    key = (flavour, repo)
    if key in _loaded: return _loaded[key]
    d, secs = dump_dir(repo)
    text = open(os.path.join(d, flavour + '.txt'), encoding='utf-8').read()
    smir = open(os.path.join(d, 'smir.txt'), encoding='utf-8').read()
    idx = CrateIndex(repo, text, smir)
    idx.dump_dir, idx.dump_secs, idx.flavour = d, secs, flavour
    idx.src_hash = source_hash(repo)
    _loaded[key] = idx
    return idx


def cleanup_dump():
    d = os.environ.get('VERIF_MIR_DIR')
    if d and not os.environ.get('VERIF_MIR_REUSE') and os.path.basename(d).endswith('-%d' % os.getpid()):
        import shutil
        shutil.rmtree(d, ignore_errors=True)


def machine(idx, extra_contracts=(), loop_bound=64, timeout_s=None, rope='contract'):
    """rope='contract': Rope behaves as the flat string (textmodel.py; discharged by the rope jobs);
    rope='real': rope.rs itself is interpreted from its MIR"""
    from . import textmodel as _tm          # registers text contracts
    from . import jsonmodel as _jm          # registers the simd-json contract (C15)
    tab = list(extra_contracts) + [(p, f) for (p, f) in _contracts.table() if not (rope == 'real' and f.__name__.startswith('c_rope'))]
    m = Machine(idx, tab, loop_bound=loop_bound, timeout_s=timeout_s)
    m.overflow_checks = idx.flavour == 'mir'
    m.rope_real = rope == 'real'
    return m


def start(m, item_name, argv):
    it = m.items.get(item_name) or m.lookup(item_name, argv)
    if it is None: raise Inconclusive('item not found: ' + item_name)
    st = State()
    m.push_frame(st, it, argv, None, item_name)
    return st


def find_item(idx, suffix, contains=None):
    c = [k for k, v in idx.items.items() if v.kind == 'fn' and k.endswith(suffix) and (contains is None or contains in k)]
    if len(c) != 1: raise Inconclusive('item lookup %r: %d candidates' % (suffix, len(c)))
    return c[0]


def call(m, st, fname, argv, until=None):
    """run fname(argv) on top of state st (whose frame stack is empty or suspended) and return the outcomes"""
    it = m.items.get(fname) or m.lookup(fname, argv)
    if it is None: raise Inconclusive('item not found: ' + fname)
    depth = len(st.frames)
    m.push_frame(st, it, argv, None, fname)
    return m.run(st, until_depth=depth)

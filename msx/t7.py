import sys, time
sys.path.insert(0, '/tmp/msx')
from msx4 import *
import msx
text = open('/tmp/mirprobe/mir.txt').read()
items = split_items(text)

class SMap:      # opaque source map: sources=['o.js'], names=['n'], mappings scripted
    def __init__(self, mappings): self.mappings = mappings
def is_smap(v): return isinstance(v, tuple) and v and v[0] == 'smapobj'

def c_sources(m, st, fr, fname, argv): return Ref(Cell(PyVec([m.operand_const('"o.js"')])))
def c_names(m, st, fr, fname, argv): return Ref(Cell(PyVec([])))
def c_get_source(m, st, fr, fname, argv): return Enum(0, {0: Agg([sv(argv[1])])})
def c_get_source_content(m, st, fr, fname, argv): return NONE()
def c_decoded(m, st, fr, fname, argv): return ('deciter', sv(argv[0])[1], 0)
def c_dec_into_iter(m, st, fr, fname, argv): return argv[0]
def c_dec_next(m, st, fr, fname, argv):
    it = deref(argv[0]); _, maps, pos = it
    if pos < len(maps):
        store(argv[0], ('deciter', maps, pos + 1)); return some(msx.copy_val(maps[pos]))
    return NONE()
def c_oncecell_new(m, st, fr, fname, argv): return ('oncecell',)
def c_iter_map_fn(m, st, fr, fname, argv): return ('mapfn', argv[0], argv[1])
def c_collect_wi(m, st, fr, fname, argv):
    _, vec, fn = argv[0]
    return PyVec([Agg([x, ('oncecell',), UNIT]) for x in vec.items])
def c_vec_is_empty(m, st, fr, fname, argv): return z3.BoolVal(len(sv(argv[0]).items) == 0)
def c_str_clone(m, st, fr, fname, argv): return sv(argv[0])
def c_substring(m, st, fr, fname, argv):
    wi = sv(argv[0]); line = wi.f[0]; isrope = line[0] == 'rope'
    if isrope:
        assert len(line[1]) <= 1, 'multi-piece line'
        line = line[1][0] if line[1] else mkstr(z3.K(z3.BitVecSort(64), z3.BitVecVal(0, 8)), 0, 0)
    n = s_len(line)
    a, b = argv[1].e, argv[2].e
    def choices(e):
        e = z3.simplify(e)
        if z3.is_bv_value(e): return [(min(e.as_long(), n), z3.BoolVal(True))]
        return [(k, e == k) for k in range(n)] + [(n, z3.UGE(e, z3.BitVecVal(n, e.size())))]
    outs = []
    for sa, ca in choices(a):
        for sb, cb in choices(b):
            cond = z3.simplify(z3.And(ca, cb))
            if z3.is_false(cond) or not m.feasible(st, cond): continue
            outs.append((sa, sb, cond))
    res = []
    for i, (sa, sb, cond) in enumerate(outs):
        s2 = st if i == len(outs) - 1 else msx.clone_state(st)
        s2.pc.append(cond)
        val = mkstr(s_arr(line), s_off(line) + sa, sb - sa) if sb > sa else mkstr(s_arr(line), 0, 0)
        res.append((s2, rope(val) if isrope else val))
    return res
def c_str_is_empty(m, st, fr, fname, argv): return z3.BoolVal(s_len(sv(sv(argv[0]))) == 0)

contracts7 = dict(contracts4)
contracts7.update({
    r'^SourceMap::sources$': c_sources, r'^SourceMap::names$': c_names,
    r'^get_source$': c_get_source, r'^SourceMap::get_source_content$': c_get_source_content,
    r'^SourceMap::decoded_mappings$': c_decoded,
    r"^<MappingsDecoder<'_> as IntoIterator>::into_iter$": c_dec_into_iter,
    r"^<MappingsDecoder<'_> as Iterator>::next$": c_dec_next,
    r'^OnceCell::<.*>::new$': c_oncecell_new,
    r'as Iterator>::map::<WithIndices': c_iter_map_fn,
    r'as Iterator>::collect::<Vec<WithIndices': c_collect_wi,
    r'^Vec::<.*>::is_empty$': c_vec_is_empty,
    r"^WithIndices::<'_, S>::substring$": c_substring,
    r'^<S as Clone>::clone$': c_str_clone,
    r'core::str::<impl str>::is_empty$': (lambda m, st, fr, fname, argv: z3.BoolVal(s_len(sv(argv[0])) == 0)),
    r'^<std::option::Option<OriginalLocation> as Clone>::clone$': c_opt_clone,
    r'^std::option::Option::<&str>::map::<Rope': (lambda m, st, fr, fname, argv: NONE() if argv[0].disc == 0 else some(rope(argv[0].payload[1].f[0]))),
})
order = sorted(contracts7, key=lambda k: (0 if ('WithIndices' in k or 'SourceMap' in k or 'MappingsDecoder' in k or 'S as' in k or '&str>::map' in k or 'OriginalLocation' in k) else 1))
contracts7 = {k: contracts7[k] for k in order}

class Machine7(Machine4):
    def call(self, st, fr, dest, fname, argv, retbb):
        for pat in (r'^get_source$', r"^WithIndices::<'_, S>::substring$", r'^SourceMap::'):
            if re.search(pat, fname):
                fn = [f for p, f in self.contracts.items() if re.search(p, fname)][0]
                res = fn(self, st, fr, fname, argv)
                if isinstance(res, list):
                    outs = []
                    for s2, v in res:
                        f2 = s2.frames[-1]; self.write(s2, f2, dest, v); self.jump(s2, f2, retbb); outs.append(s2)
                    return outs
                self.write(st, fr, dest, res); self.jump(st, fr, retbb); return None
        return super().call(st, fr, dest, fname, argv, retbb)

def load_smir():
    out = {}; cur = None
    for l in open('/tmp/mirprobe/smir.txt'):
        mm = re.match(r'^fn (.*?)\((?:_1: |\) ->)', l)
        if mm: cur = mm.group(1)
        mm = re.match(r'^\s+(_\d+) = (\{closure@[^}]*\})\((.*)\);$', l)
        if mm: out[(mm.group(2), mm.group(1))] = split_top(mm.group(3))
    return out
SMIR = load_smir()
def run(textv, nm, mapped):
    m = Machine7(items, contracts7, loop_bound=64)
    m.smir_closures = SMIR
    T = m.operand_const('"%s"' % textv.replace('\n', '\\n'))
    st = State(); maps = []
    prev = None
    for i in range(nm):
        gl, gc = z3.BitVec(f'gl{i}', 32), z3.BitVec(f'gc{i}', 32)
        st.pc += [z3.UGE(gl, 1), z3.ULT(gl, 6), z3.ULT(gc, 8)]
        if prev is not None: st.pc.append(z3.Or(z3.UGT(gl, prev[0]), z3.And(gl == prev[0], z3.UGE(gc, prev[1]))))
        prev = (gl, gc)
        if mapped[i]:
            ol, oc = z3.BitVec(f'ol{i}', 32), z3.BitVec(f'oc{i}', 32)
            orig = some(Agg([bv(0, 'u32'), IntV(ol, 'u32'), IntV(oc, 'u32'), NONE()]))
        else: orig = NONE()
        maps.append(Agg([IntV(gl, 'u32'), IntV(gc, 'u32'), orig]))
    smap = Cell(('smapobj', maps))
    cbs = [Cell(External('on_chunk')), Cell(External('on_source')), Cell(External('on_name'))]
    it = m.find('stream_chunks_of_source_map_full')
    m.push_frame(st, it, [T, Ref(smap)] + [Ref(c) for c in cbs], None, None)
    t0 = time.time()
    outs = m.run(st, until_depth=0)
    explore = time.time() - t0
    n = len(textv); bad = 0; npan = 0
    for s2, rv in outs:
        if isinstance(rv, Panic):
            npan += 1
            if npan <= 2:
                sol = z3.Solver(); sol.add(*s2.pc); sol.check(); print('   PANIC', rv.msg[:80], sol.model())
            continue
        pos, line, col, conds = 0, 1, 0, []
        for name_, args in s2.events:
            if name_ != 'on_chunk': continue
            ch, mp = args
            r = ch.payload[1].f[0]
            for p in r[1]:
                conds.append(z3.BoolVal(s_off(p) == pos and s_len(p) >= 1)); 
                seg = textv[pos:pos + s_len(p)]
                conds.append(z3.BoolVal('\n' not in seg[:-1]))
                conds += [mp.f[0].e == line, mp.f[1].e == col]
                pos += s_len(p)
                if seg.endswith('\n'): line += 1; col = 0
                else: col += len(seg)
        conds.append(z3.BoolVal(pos == n)); conds += [rv.f[0].e == line, rv.f[1].e == col]
        sol = z3.Solver(); sol.add(*s2.pc); sol.add(z3.Not(z3.And(conds)))
        if sol.check() != z3.unsat:
            bad += 1
            if bad <= 2: print('   VIOLATION', sol.model(), [(a[0].payload[1].f[0], ) for nme, a in s2.events if nme == 'on_chunk'][:0])
    print(f'text={textv!r} mappings={nm} mapped={mapped}: paths={len(outs)} panics={npan} bad={bad} explore={explore:.1f}s queries={m.queries}')

run("abc\nde", 1, [True])
run("abc\nde", 2, [True, True])
run("abc\nde", 2, [True, False])
run("ab\n\ncd\n", 2, [True, True])

"""Spike part 5: two logical threads over CachedSource::{map,stream_chunks} MIR with a DashMap contract."""
import sys, time, itertools
sys.path.insert(0, '/tmp/msx')
import msx, msx2, msx3, msx4
from msx4 import *

class DashMapV:
    def __init__(self): self.entries = {}; self.lock = None   # lock: None | ('w', tid) | ('r', {tid: count})
class Guard:
    def __init__(self, kind, mapref, cell, key=None): self.kind, self.mapref, self.cell, self.key = kind, mapref, cell, key
class Violation(Exception): pass
_ids = itertools.count(1)

SCHED = re.compile(r'^(DashMap::<.*>::(get|insert|entry)|dashmap::VacantEntry::<.*>::insert)')

class Thread:
    def __init__(self, tid, prog): self.tid, self.prog, self.frames, self.borrows, self.opi, self.log = tid, prog, [], [], 0, []

def clone5(st):
    memo = {}
    def cv(v):
        if isinstance(v, (IntV, Unit, External)) or z3.is_expr(v) or v is None or isinstance(v, (int, str, tuple, bool)): return v
        if isinstance(v, ClosureV): return ClosureV(v.tag, [cv(x) for x in v.f])
        if isinstance(v, Agg): return Agg([cv(x) for x in v.f])
        if isinstance(v, Enum): return Enum(v.disc, {k: Agg([cv(x) for x in p.f]) for k, p in v.payload.items()})
        if isinstance(v, Ref): return Ref(cc(v.cell), v.path)
        if isinstance(v, PyVec): return PyVec([cv(x) for x in v.items])
        if isinstance(v, DashMapV):
            if id(v) in memo: return memo[id(v)]
            d = DashMapV(); memo[id(v)] = d
            d.entries = {k: cc(c) for k, c in v.entries.items()}
            d.lock = None if v.lock is None else (v.lock[0], dict(v.lock[1]) if isinstance(v.lock[1], dict) else v.lock[1])
            return d
        if isinstance(v, Guard): return Guard(v.kind, cv(v.mapref), cc(v.cell) if v.cell else None, v.key)
        if isinstance(v, Panic): return v
        raise NotImplementedError('clone ' + repr(type(v)))
    def cc(c):
        if c.id in memo: return memo[c.id]
        n = Cell.__new__(Cell); n.id = c.id; memo[c.id] = n; n.freed = getattr(c, 'freed', False); n.v = cv(c.v); return n
    s2 = State(); s2.pc = list(st.pc); s2.events = list(st.events); s2.steps = st.steps
    s2.threads = []
    for t in st.threads:
        nt = Thread(t.tid, t.prog); nt.opi = t.opi; nt.log = list(t.log)
        nt.borrows = [cv(b) for b in t.borrows]
        for fr in t.frames:
            nf = Frame.__new__(Frame)
            nf.item, nf.body, nf.bb, nf.ip = fr.item, fr.body, fr.bb, fr.ip
            nf.locals = {i: cc(c) for i, c in fr.locals.items()}
            rp = fr.ret_place
            nf.ret_place = (cc(rp[0]), rp[1]) if isinstance(rp, tuple) else rp
            nf.ret_bb = fr.ret_bb; nf.visits = dict(getattr(fr, 'visits', {}))
            nt.frames.append(nf)
        s2.threads.append(nt)
    s2.cur = st.cur; s2.switches = st.switches; s2.decided = st.decided; s2.sched = list(st.sched)
    s2.frames = s2.threads[s2.cur].frames
    s2.shared = [cv(x) for x in st.shared]
    return s2
msx.clone_state = clone5

class Machine5(Machine4):
    max_switches = 6
    def tid(self, st): return st.cur
    def step(self, st):
        fr = st.frames[-1]
        stmts = fr.body.blocks[fr.bb]; s = stmts[fr.ip]
        if fr.ip == len(stmts) - 1:
            m = re.match(r'^drop\((.*)\) -> \[return: bb(\d+), unwind.*\];$', s)
            if m:
                try: v = self.read(st, fr, m.group(1))
                except Exception: v = None
                self.drop_value(st, v)
                self.jump(st, fr, int(m.group(2))); return None
            m = re.match(r'^(.*?) = (.*)\((.*)\) -> \[return: bb(\d+), unwind.*\];$', s)
            if m and SCHED.match(m.group(2)) and not st.decided:
                # schedule point: stay or switch
                outs = []
                other = 1 - st.cur
                ot = st.threads[other]
                if st.switches < self.max_switches and (ot.frames or ot.opi < len(ot.prog)):
                    s2 = msx.clone_state(st); s2.cur = other; s2.switches += 1; s2.decided = False
                    s2.sched.append(other); s2.frames = s2.threads[other].frames
                    outs.append(s2)
                st.decided = True
                outs.insert(0, st)
                return outs
        return super().step(st)
    def call(self, st, fr, dest, fname, argv, retbb):
        for pat in (r"^stream_chunks_of_source_map::<'_, Rope<'_>>$", r"^stream_chunks_of_raw_source::<'_, Rope<'_>>$", r'^stream_and_get_source_and_map::<T>$'):
            if re.search(pat, fname):
                res = self.contracts[pat](self, st, fr, fname, argv)
                self.write(st, fr, dest, res); self.jump(st, fr, retbb); return None
        return super().call(st, fr, dest, fname, argv, retbb)
    def drop_value(self, st, v):
        if isinstance(v, Guard): self.release(st, v)
        elif isinstance(v, Enum):
            for p in v.payload.values():
                for x in p.f: self.drop_value(st, x)
        elif isinstance(v, Agg):
            for x in v.f: self.drop_value(st, x)
    def release(self, st, g):
        dm = deref(g.mapref)
        if dm.lock is None: return
        if dm.lock[0] == 'w' and dm.lock[1] == st.cur: dm.lock = None
        elif dm.lock[0] == 'r':
            d = dm.lock[1]
            if st.cur in d:
                d[st.cur] -= 1
                if d[st.cur] == 0: del d[st.cur]
            if not d: dm.lock = None
    def acquire(self, st, dm, kind):
        me = st.cur
        if dm.lock is None:
            dm.lock = ('w', me) if kind == 'w' else ('r', {me: 1}); return True
        if dm.lock[0] == 'r' and kind == 'r':
            dm.lock[1][me] = dm.lock[1].get(me, 0) + 1; return True
        if dm.lock[0] == 'r' and set(dm.lock[1]) == {me} and kind == 'w':
            raise Violation('self-deadlock: write lock while holding read lock')
        if dm.lock[0] == 'w' and dm.lock[1] == me:
            raise Violation('self-deadlock: re-entrant lock')
        return False

class Blocked(Exception): pass

def key_of(o):
    o = sv(o); return tuple(bool(z3.is_true(z3.simplify(x))) for x in o.f)
def c_dm_get(m, st, fr, fname, argv):
    dmref = argv[0]; dm = deref(dmref); k = key_of(argv[1])
    if not m.acquire(st, dm, 'r'): raise Blocked()
    st.decided = False
    if k in dm.entries: return some(Guard('r', dmref, dm.entries[k]))
    m.release(st, Guard('r', dmref, None)); return NONE()
def c_dm_insert(m, st, fr, fname, argv):
    dmref = argv[0]; dm = deref(dmref); k = key_of(argv[1])
    if not m.acquire(st, dm, 'w'): raise Blocked()
    st.decided = False
    old = dm.entries.get(k)
    dm.entries[k] = Cell(argv[2])
    m.release(st, Guard('w', dmref, None))
    if old is not None:
        old.freed = True           # the replaced value is dropped by the caller right away (drop(_13))
        st.threads[st.cur].log.append('insert REPLACED existing entry')
        return some(old.v)
    return NONE()
def c_dm_entry(m, st, fr, fname, argv):
    dmref = argv[0]; dm = deref(dmref); k = key_of(argv[1])
    if not m.acquire(st, dm, 'w'): raise Blocked()
    st.decided = False
    if k in dm.entries: return Enum(0, {0: Agg([Guard('w', dmref, dm.entries[k], k)])})
    return Enum(1, {1: Agg([Guard('w', dmref, None, k)])})
def c_occ_get(m, st, fr, fname, argv): g = sv(argv[0]); return Ref(g.cell)
def c_vac_insert(m, st, fr, fname, argv):
    g = argv[0]; dm = deref(g.mapref)
    st.decided = False
    c = Cell(argv[1]); dm.entries[g.key] = c
    return Guard('w', g.mapref, c, g.key)
def c_ref_deref(m, st, fr, fname, argv): g = sv(argv[0]); return Ref(g.cell)
def fresh_map(): return some(('smap', next(_ids)))
def c_inner_map(m, st, fr, fname, argv): return fresh_map()
def c_stream_and_get(m, st, fr, fname, argv): return Agg([Agg([bv(1, 'u32'), bv(3, 'u32')]), fresh_map()])
def c_stream_of_map(m, st, fr, fname, argv):
    mapref = argv[1]
    if getattr(mapref.cell, 'freed', False): raise Violation('stream reads freed map')
    st.threads[st.cur].borrows.append(mapref)       # callbacks keep names/contents borrowed from the cached map
    return Agg([bv(1, 'u32'), bv(3, 'u32')])
def c_opaque(m, st, fr, fname, argv): return ('opaque',)
def c_clone_val(m, st, fr, fname, argv): return msx.copy_val(sv(argv[0]))

contracts5 = dict(contracts4)
contracts5.update({
    r'^<Arc<DashMap<.*>> as Deref>::deref$': (lambda m, st, fr, fname, argv: sv(argv[0])),
    r'^DashMap::<.*>::get::<MapOptions>$': c_dm_get,
    r'^DashMap::<.*>::insert$': c_dm_insert,
    r'^DashMap::<.*>::entry$': c_dm_entry,
    r'^dashmap::OccupiedEntry::<.*>::get$': c_occ_get,
    r'^dashmap::VacantEntry::<.*>::insert$': c_vac_insert,
    r'^<dashmap::mapref::one::Ref<.*> as Deref>::deref$': c_ref_deref,
    r'^<T as source::Source>::map$': c_inner_map,
    r'^stream_and_get_source_and_map::<T>$': c_stream_and_get,
    r"^stream_chunks_of_source_map::<'_, Rope<'_>>$": c_stream_of_map,
    r"^stream_chunks_of_raw_source::<'_, Rope<'_>>$": (lambda m, st, fr, fname, argv: Agg([bv(1, 'u32'), bv(3, 'u32')])),
    r'^<CachedSource<T> as source::Source>::rope$': c_opaque,
    r'^<MapOptions as Clone>::clone$': c_clone_val,
    r'^<std::option::Option<SourceMap> as Clone>::clone$': c_clone_val,
})
order = sorted(contracts5, key=lambda k: (0 if ('DashMap' in k or 'dashmap' in k or 'SourceMap' in k or 'MapOptions' in k or 'CachedSource' in k or "stream_" in k) else 1))
contracts5 = {k: contracts5[k] for k in order}

"""Stage S5: two logical threads over the MIR. Context switches happen only at the contract calls on shared state
(AtomicBool load/store, Mutex::lock, DashMap get/insert/entry, VacantEntry::insert) and when a thread finishes an
operation or blocks; the schedule is explored exhaustively up to a bound on the number of switches."""
from .values import *
from .machine import Native, Blocked, PathDone, Panic
from .mir import Inconclusive


class ThreadProg(Native):
    """bottom frame of a logical thread: issues its operations one after another and keeps their results"""

    def __init__(self, tid, ops):
        self.tid, self.ops, self.pc_, self.results, self.ret = tid, ops, 0, [], None

    def step(self, m, st):
        if self.pc_ >= len(self.ops):
            st.frames.pop(); return
        # operation boundary = schedule point (offered BEFORE this frame changes: a suspended copy re-runs this step)
        boundary_switch(m, st)
        name, argfn = self.ops[self.pc_]
        self.pc_ += 1
        T = st.extra['thr']
        T['log'].append(('begin', self.tid, self.pc_ - 1))
        T['pending'][self.tid] = self.pc_ - 1
        if callable(name):
            name(m, st, self); return
        m.call_fn(st, name, argfn(m, st, self), ('native',))

    def recv(self, m, st, v):
        T = st.extra['thr']
        T['log'].append(('end', self.tid, self.pc_ - 1))
        self.results.append(v)
        h = m.hooks.get('op_done')
        if h: h(m, st, self, v)


def setup(m, st, programs, max_switches=6):
    stacks = [[ThreadProg(i, ops)] for i, ops in enumerate(programs)]
    st.extra['thr'] = {'stacks': stacks, 'cur': 0, 'switches': 0, 'pass': [False] * len(programs), 'log': [], 'sched': [0], 'max': max_switches,
                       'pending': [None] * len(programs), 'locks': {}, 'blocked': [False] * len(programs)}
    st.frames = stacks[0]; stacks[0] = None
    m.hooks['sched'] = sched_point
    m.hooks['idle'] = idle
    m.hooks['blocked'] = blocked
    m.hooks['drop'] = on_drop
    m.hooks['lock'] = mutex_lock
    m.hooks['dm_guard'] = dm_guard


def switch_to(st, other):
    T = st.extra['thr']
    T['stacks'][T['cur']] = st.frames
    st.frames = T['stacks'][other]; T['stacks'][other] = None
    T['cur'] = other; T['sched'].append(other)


def runnable(T, tid):
    s = T['stacks'][tid]
    return s is not None and len(s) > 0


def sched_point(m, st, what, obj):
    """called by the shared-state contracts BEFORE their effect: offer a context switch here"""
    T = st.extra.get('thr')
    if T is None: return
    cur = T['cur']
    if T['pass'][cur]:
        T['pass'][cur] = False; return
    if T['switches'] >= T['max']: return
    for other in range(len(T['stacks'])):
        if other == cur or not runnable(T, other): continue
        s2 = st.clone()
        T2 = s2.extra['thr']
        T2['pass'][cur] = True; T2['switches'] += 1
        T2['log'].append(('switch', cur, other, what))
        switch_to(s2, other)
        m.spawned.append(s2)


def boundary_switch(m, st):
    """between two operations of a thread"""
    sched_point(m, st, 'op', None)


def idle(m, st):
    """the running thread finished all its operations: continue with another one if there is any"""
    T = st.extra.get('thr')
    if T is None: return False
    for other in range(len(T['stacks'])):
        if other != T['cur'] and runnable(T, other):
            T['stacks'][T['cur']] = []
            cur = T['cur']
            st.frames = T['stacks'][other]; T['stacks'][other] = None; T['cur'] = other; T['sched'].append(other)
            T['stacks'][cur] = []
            return True
    return False


def blocked(m, st):
    T = st.extra['thr']
    cur = T['cur']
    T['blocked'][cur] = True
    T['pass'][cur] = True                      # when it resumes it retries the same step without a new fork
    for other in range(len(T['stacks'])):
        if other != cur and runnable(T, other) and not T['blocked'][other]:
            T['log'].append(('blocked', cur))
            switch_to(st, other)
            return 'switched'
    return 'deadlock'


def _unblock_all(T):
    T['blocked'] = [False] * len(T['blocked'])


# ------------------------------------------------------------------------------------------ locks
def lock_key(ref): return (ref.cell.id, ref.path)


def mutex_lock(m, st, r):
    T = st.extra.get('thr')
    if T is None: return
    k = ('mutex',) + lock_key(r)
    owner = T['locks'].get(k)
    if owner is not None and owner != T['cur']: raise Blocked()
    if owner == T['cur']: raise Panic('deadlock: Mutex locked twice by the same thread')
    T['locks'][k] = T['cur']


def dm_guard(m, st, kind, mapref, cell):
    """DashMap shard lock: readers share, a writer excludes (one shard is modelled)"""
    T = st.extra.get('thr')
    if T is None: return
    k = ('dm',) + lock_key(mapref if not isinstance(deref(mapref), Ref) else deref(mapref))
    cur = T['cur']
    state = T['locks'].get(k)               # None | ('w', tid) | ('r', {tid: n})
    if state is None:
        T['locks'][k] = ('w', cur) if kind == 'write' else ('r', {cur: 1}); return
    if state[0] == 'r':
        if kind == 'read':
            d = dict(state[1]); d[cur] = d.get(cur, 0) + 1; T['locks'][k] = ('r', d); return
        if set(state[1]) == {cur}: raise Panic('deadlock: DashMap write lock requested while the same thread holds a read guard')
        raise Blocked()
    if state[1] == cur: raise Panic('deadlock: DashMap shard locked twice by the same thread')
    raise Blocked()


def dm_release(st, mapref, kind):
    T = st.extra.get('thr')
    if T is None: return
    k = ('dm',) + lock_key(mapref if not isinstance(deref(mapref), Ref) else deref(mapref))
    state = T['locks'].get(k)
    cur = T['cur']
    if state is None: return
    if state[0] == 'w' and state[1] == cur:
        del T['locks'][k]; _unblock_all(T)
    elif state[0] == 'r' and cur in state[1]:
        d = dict(state[1]); d[cur] -= 1
        if d[cur] == 0: del d[cur]
        if d: T['locks'][k] = ('r', d)
        else:
            del T['locks'][k]; _unblock_all(T)


def on_drop(m, st, v):
    """releases the locks held by guards that are dropped"""
    T = st.extra.get('thr')
    if T is None: return
    seen = set()
    def walk(x, depth=0):
        if depth > 6 or id(x) in seen: return
        seen.add(id(x))
        if isinstance(x, Ref):
            if x.meta and x.meta[0] == 'guard':
                k = ('mutex',) + lock_key(x.meta[1])
                if T['locks'].get(k) == T['cur']:
                    del T['locks'][k]; _unblock_all(T)
            elif x.meta and x.meta[0] == 'dmref':
                dm_release(st, x.meta[2], 'read' if x.meta[1] == 'read' else 'write')
            return
        if isinstance(x, Agg):
            if x.ty in ('OccupiedEntry', 'VacantEntry'):
                dm_release(st, x.f[0], 'write'); return
            for y in x.f: walk(y, depth + 1)
        elif isinstance(x, Enum):
            for p in x.payload.values(): walk(p, depth + 1)
    walk(v)

"""Value domain of the MIR symbolic executor. Integers are Python ints when concrete (two's complement, masked to
their Rust width) and z3 bit-vectors when symbolic; Booleans are Python bools or z3 Bools."""
import itertools
import z3
from .mir import INT_TYPES, SIGNED, Inconclusive


class Cell:
    _n = itertools.count()
    __slots__ = ('v', 'id', 'freed', 'tag')

    def __init__(self, v=None, tag=None):
        self.v = v
        self.id = next(Cell._n)
        self.freed = False
        self.tag = tag


class Ref:
    __slots__ = ('cell', 'path', 'meta')

    def __init__(self, cell, path=(), meta=None):
        self.cell, self.path, self.meta = cell, tuple(path), meta

    def __repr__(self):
        return 'Ref(c%d,%s)' % (self.cell.id, self.path)


class Agg:                       # struct / tuple / array / Vec (ty == 'Vec')
    __slots__ = ('f', 'ty')

    def __init__(self, fields, ty=None):
        self.f = list(fields); self.ty = ty

    def __repr__(self):
        return '%s%s' % (self.ty or 'Agg', self.f)


class ClosureV(Agg):
    __slots__ = ('tag', 'subst')

    def __init__(self, tag, fields, subst=None):
        Agg.__init__(self, fields, 'closure'); self.tag = tag; self.subst = subst


class Enum:                      # disc: int | z3 BV64 ; payload {variant index: Agg}
    __slots__ = ('ty', 'disc', 'payload')

    def __init__(self, ty, disc, payload=None):
        self.ty, self.disc, self.payload = ty, disc, payload or {}

    def __repr__(self):
        return 'Enum(%s,%s,%s)' % (self.ty, self.disc, self.payload)


class IntV:
    __slots__ = ('e', 'ty')

    def __init__(self, e, ty):
        self.e, self.ty = e, ty

    def __repr__(self):
        return '%s:%s' % (self.e, self.ty)


class Unit:
    def __repr__(self): return '()'


UNIT = Unit()


class FnItem:
    __slots__ = ('name',)

    def __init__(self, name): self.name = name

    def __repr__(self): return 'fn ' + self.name


class External:
    """a top-level callback: records (name, args) events on the state"""
    __slots__ = ('name', 'fn')

    def __init__(self, name, fn=None): self.name, self.fn = name, fn


class StrV:
    """text model: immutable view (buf, off, len) of a tuple of byte values (int | z3 BV8); len concrete"""
    __slots__ = ('buf', 'off', 'len')

    def __init__(self, buf, off=0, ln=None):
        self.buf, self.off, self.len = buf, off, (len(buf) - off if ln is None else ln)

    def byte(self, i): return self.buf[self.off + i]

    def bytes(self): return self.buf[self.off:self.off + self.len]

    def slice(self, a, b): return StrV(self.buf, self.off + a, b - a)

    def is_conc(self): return all(isinstance(b, int) for b in self.bytes())

    def conc(self): return bytes(self.bytes()).decode('utf-8', 'replace')

    def __repr__(self):
        return 'Str(%r)' % ''.join(chr(b) if isinstance(b, int) else '?' for b in self.bytes())


def mkstr(s):
    if isinstance(s, str): s = s.encode('utf-8')
    return StrV(tuple(s), 0, len(s))


class RopeV:
    """Rope by contract 'behaves as the flat string': immutable tuple of non-empty StrV pieces"""
    __slots__ = ('pieces',)

    def __init__(self, pieces): self.pieces = tuple(p for p in pieces if p.len > 0)

    def len(self): return sum(p.len for p in self.pieces)

    def bytes(self):
        out = []
        for p in self.pieces: out.extend(p.bytes())
        return out

    def flat(self): return StrV(tuple(self.bytes()))

    def __repr__(self): return 'Rope(%r)' % (self.pieces,)


class Opaque:
    """an immutable uninterpreted token (string id, abstract child id, ...)"""
    __slots__ = ('kind', 'data')

    def __init__(self, kind, data=None): self.kind, self.data = kind, data

    def __repr__(self): return 'Opaque(%s,%r)' % (self.kind, self.data)


class PyMap:
    """finite association list (HashMap / DashMap contracts)"""
    __slots__ = ('entries', 'ty')

    def __init__(self, entries=None, ty='HashMap'): self.entries, self.ty = list(entries or []), ty


class Iter:
    """iterator model: items = list of already materialised values (refs or values), pos, adaptor chain;
    src = (reference to a crate-defined iterator value, name of its `next`) when the base is crate code"""
    __slots__ = ('items', 'pos', 'ops', 'count', 'src')

    def __init__(self, items, pos=0, ops=(), count=0, src=None): self.items, self.pos, self.ops, self.count, self.src = items, pos, tuple(ops), count, src


# ----------------------------------------------------------------------------------------- integer helpers
def width(ty): return INT_TYPES[ty]


def mask(x, ty): return x & ((1 << INT_TYPES[ty]) - 1)


def to_signed(x, ty):
    w = INT_TYPES[ty]
    return x - (1 << w) if x >> (w - 1) else x


def iv(val, ty): return IntV(mask(val, ty), ty)


def zi(v):
    """z3 expression of an IntV"""
    e = v.e
    if isinstance(e, int): return z3.BitVecVal(e, INT_TYPES[v.ty])
    return e


def zb(b):
    if isinstance(b, bool): return z3.BoolVal(b)
    return b


def conc_int(v):
    """python int if concrete (after simplification) else None"""
    e = v.e if isinstance(v, IntV) else v
    if isinstance(e, int): return e
    s = z3.simplify(e)
    if z3.is_bv_value(s): return s.as_long()
    return None


def conc_bool(b):
    if isinstance(b, bool): return b
    s = z3.simplify(b)
    if z3.is_true(s): return True
    if z3.is_false(s): return False
    return None


def norm_int(v):
    if isinstance(v.e, int): return v
    s = z3.simplify(v.e)
    if z3.is_bv_value(s): return IntV(s.as_long(), v.ty)
    return IntV(s, v.ty)


def b_not(a):
    if isinstance(a, bool): return not a
    return z3.Not(a)


def b_and(*xs):
    out = []
    for x in xs:
        if isinstance(x, bool):
            if not x: return False
        else: out.append(x)
    if not out: return True
    return out[0] if len(out) == 1 else z3.And(out)


def b_or(*xs):
    out = []
    for x in xs:
        if isinstance(x, bool):
            if x: return True
        else: out.append(x)
    if not out: return False
    return out[0] if len(out) == 1 else z3.Or(out)


def i_eq(a, b):
    if isinstance(a.e, int) and isinstance(b.e, int): return a.e == b.e
    return zi(a) == zi(b)


def byte_eq(a, b):
    if isinstance(a, int) and isinstance(b, int): return a == b
    za = z3.BitVecVal(a, 8) if isinstance(a, int) else a
    zb_ = z3.BitVecVal(b, 8) if isinstance(b, int) else b
    return za == zb_


def binop(op, a, b):
    if isinstance(a, (bool, z3.BoolRef)) or isinstance(b, (bool, z3.BoolRef)):
        if isinstance(a, bool) and isinstance(b, bool):
            return {'Eq': a == b, 'Ne': a != b, 'BitAnd': a and b, 'BitOr': a or b, 'BitXor': a != b,
                    'Lt': (not a) and b, 'Le': (not a) or b, 'Gt': a and not b, 'Ge': a or not b}[op]
        za, zb_ = zb(a), zb(b)
        return {'Eq': za == zb_, 'Ne': za != zb_, 'BitAnd': z3.And(za, zb_), 'BitOr': z3.Or(za, zb_),
                'BitXor': z3.Xor(za, zb_)}[op]
    if not isinstance(a, IntV) or not isinstance(b, IntV):
        raise Inconclusive('binop %s on %r, %r' % (op, a, b))
    ty = a.ty; sg = ty in SIGNED; w = INT_TYPES[ty]
    if isinstance(a.e, int) and isinstance(b.e, int):
        return _binop_conc(op, a.e, b.e, ty, sg, w, b.ty)
    x, y = zi(a), zi(b)
    if op in ('Shl', 'Shr', 'ShlUnchecked', 'ShrUnchecked'):
        yy = y
        if yy.size() < w: yy = z3.ZeroExt(w - yy.size(), yy)
        elif yy.size() > w: yy = z3.Extract(w - 1, 0, yy)
        yy = yy & z3.BitVecVal(w - 1, w)        # Rust masks the shift amount (overflow is asserted separately)
        if op.startswith('Shl'): return IntV(x << yy, ty)
        return IntV((x >> yy) if sg else z3.LShR(x, yy), ty)
    if y.size() != w:
        raise Inconclusive('binop width mismatch %s %s %s' % (op, a, b))
    if op in ('Add', 'AddUnchecked'): return IntV(x + y, ty)
    if op in ('Sub', 'SubUnchecked'): return IntV(x - y, ty)
    if op in ('Mul', 'MulUnchecked'): return IntV(x * y, ty)
    if op == 'Div': return IntV((x / y) if sg else z3.UDiv(x, y), ty)
    if op == 'Rem': return IntV(z3.SRem(x, y) if sg else z3.URem(x, y), ty)
    if op == 'BitAnd': return IntV(x & y, ty)
    if op == 'BitOr': return IntV(x | y, ty)
    if op == 'BitXor': return IntV(x ^ y, ty)
    if op == 'Eq': return x == y
    if op == 'Ne': return x != y
    if op == 'Lt': return (x < y) if sg else z3.ULT(x, y)
    if op == 'Le': return (x <= y) if sg else z3.ULE(x, y)
    if op == 'Gt': return (x > y) if sg else z3.UGT(x, y)
    if op == 'Ge': return (x >= y) if sg else z3.UGE(x, y)
    if op == 'Cmp':
        lt = (x < y) if sg else z3.ULT(x, y)
        return IntV(z3.If(lt, z3.BitVecVal(255, 8), z3.If(x == y, z3.BitVecVal(0, 8), z3.BitVecVal(1, 8))), 'i8')
    if op == 'AddWithOverflow':
        ov = z3.Not(z3.BVAddNoOverflow(x, y, sg)) if not sg else z3.Or(z3.Not(z3.BVAddNoOverflow(x, y, True)), z3.Not(z3.BVAddNoUnderflow(x, y)))
        return Agg([IntV(x + y, ty), ov])
    if op == 'SubWithOverflow':
        ov = z3.ULT(x, y) if not sg else z3.Or(z3.Not(z3.BVSubNoOverflow(x, y)), z3.Not(z3.BVSubNoUnderflow(x, y, True)))
        return Agg([IntV(x - y, ty), ov])
    if op == 'MulWithOverflow':
        ov = z3.Not(z3.BVMulNoOverflow(x, y, sg)) if not sg else z3.Or(z3.Not(z3.BVMulNoOverflow(x, y, True)), z3.Not(z3.BVMulNoUnderflow(x, y)))
        return Agg([IntV(x * y, ty), ov])
    raise Inconclusive('binop ' + op)


def _binop_conc(op, x, y, ty, sg, w, yty):
    M = (1 << w) - 1
    sx, sy = (to_signed(x, ty), to_signed(y, yty)) if sg else (x, y)
    if op in ('Shl', 'ShlUnchecked'): return IntV((x << (y & (w - 1))) & M, ty)
    if op in ('Shr', 'ShrUnchecked'): return IntV((sx >> (y & (w - 1))) & M, ty)
    if op in ('Add', 'AddUnchecked'): return IntV((x + y) & M, ty)
    if op in ('Sub', 'SubUnchecked'): return IntV((x - y) & M, ty)
    if op in ('Mul', 'MulUnchecked'): return IntV((x * y) & M, ty)
    if op == 'Div':
        if y == 0: raise Inconclusive('concrete division by zero reached (should have been asserted)')
        q = abs(sx) // abs(sy); q = -q if (sx < 0) != (sy < 0) else q
        return IntV(q & M, ty)
    if op == 'Rem':
        if y == 0: raise Inconclusive('concrete remainder by zero')
        r = abs(sx) % abs(sy); r = -r if sx < 0 else r
        return IntV(r & M, ty)
    if op == 'BitAnd': return IntV(x & y, ty)
    if op == 'BitOr': return IntV(x | y, ty)
    if op == 'BitXor': return IntV(x ^ y, ty)
    if op == 'Eq': return x == y
    if op == 'Ne': return x != y
    if op == 'Lt': return sx < sy
    if op == 'Le': return sx <= sy
    if op == 'Gt': return sx > sy
    if op == 'Ge': return sx >= sy
    if op == 'Cmp': return IntV((255 if sx < sy else (0 if sx == sy else 1)), 'i8')
    if op == 'AddWithOverflow':
        r = sx + sy
        lo, hi = (-(1 << (w - 1)), (1 << (w - 1)) - 1) if sg else (0, M)
        return Agg([IntV(r & M, ty), not (lo <= r <= hi)])
    if op == 'SubWithOverflow':
        r = sx - sy
        lo, hi = (-(1 << (w - 1)), (1 << (w - 1)) - 1) if sg else (0, M)
        return Agg([IntV(r & M, ty), not (lo <= r <= hi)])
    if op == 'MulWithOverflow':
        r = sx * sy
        lo, hi = (-(1 << (w - 1)), (1 << (w - 1)) - 1) if sg else (0, M)
        return Agg([IntV(r & M, ty), not (lo <= r <= hi)])
    raise Inconclusive('binop ' + op)


def cast(a, ty):
    if isinstance(a, (bool, z3.BoolRef)):
        if isinstance(a, bool): return IntV(1 if a else 0, ty)
        w = INT_TYPES[ty]
        return IntV(z3.If(a, z3.BitVecVal(1, w), z3.BitVecVal(0, w)), ty)
    w0, w1 = INT_TYPES[a.ty], INT_TYPES[ty]
    if isinstance(a.e, int):
        x = to_signed(a.e, a.ty) if a.ty in SIGNED else a.e
        return IntV(x & ((1 << w1) - 1), ty)
    if w1 == w0: return IntV(a.e, ty)
    if w1 < w0: return IntV(z3.Extract(w1 - 1, 0, a.e), ty)
    return IntV(z3.SignExt(w1 - w0, a.e) if a.ty in SIGNED else z3.ZeroExt(w1 - w0, a.e), ty)


# ----------------------------------------------------------------------------------------- paths
def get_path(v, path):
    for p in path:
        if isinstance(p, int):
            if isinstance(v, Ref) and p == 0: continue      # Box / Unique / NonNull wrappers project to the pointer itself
            v = v.f[p]
        elif p[0] == 'dc':
            if not isinstance(v, Enum): raise Inconclusive('downcast of non-enum %r' % (v,))
            pl = v.payload.get(p[1])
            if pl is None:
                raise Inconclusive('downcast to variant %s of %r without payload' % (p[1], v))
            v = pl
        elif p[0] == 'sym':
            e = p[1]
            elems = v.f
            if not elems: raise Inconclusive('symbolic index into empty aggregate')
            if len(elems) > 8 and all(isinstance(x, IntV) and isinstance(x.e, int) for x in elems):
                v = IntV(_const_table_read(tuple(x.e for x in elems), elems[0].ty, e), elems[0].ty)
            elif all(isinstance(x, IntV) for x in elems):
                res = zi(elems[-1])
                for i in range(len(elems) - 2, -1, -1):
                    res = z3.If(e == z3.BitVecVal(i, e.size()), zi(elems[i]), res)
                v = IntV(res, elems[0].ty)
            else:
                raise Inconclusive('symbolic index into non-integer aggregate')
        else:
            raise Inconclusive('path element %r' % (p,))
    return v


_tables = {}


def _table_runs(vals, w):
    """exact piecewise description of a constant table: runs (start, end, 'const'|'affine', param) where
    table[i] == param (const) or table[i] == (i + param) mod 2^w (affine) for start <= i < end"""
    runs, i, n, M = [], 0, len(vals), (1 << w) - 1
    while i < n:
        j = i + 1
        while j < n and vals[j] == vals[i]: j += 1
        k = i + 1
        off = (vals[i] - i) & M
        while k < n and ((vals[k] - k) & M) == off: k += 1
        if k > j: runs.append((i, k, 'affine', off)); i = k
        else: runs.append((i, j, 'const', vals[i])); i = j
    return runs


def _const_table_read(vals, ty, e):
    """table[e] for a constant table and symbolic index e, as a short nested ite over index ranges (exact)"""
    w = INT_TYPES[ty]; iw = e.size()
    key = (vals, ty)
    runs = _tables.get(key)
    if runs is None:
        runs = _table_runs(vals, w); _tables[key] = runs
    def val(run):
        _, _, kind, p = run
        if kind == 'const': return z3.BitVecVal(p, w)
        x = z3.Extract(w - 1, 0, e) if iw > w else (z3.ZeroExt(w - iw, e) if iw < w else e)
        return x + z3.BitVecVal(p, w)
    res = val(runs[-1])
    for run in reversed(runs[:-1]):
        res = z3.If(z3.ULT(e, z3.BitVecVal(run[1], iw)), val(run), res)
    return res


def set_path(cell, path, val):
    if not path:
        cell.v = val; return
    v = get_path(cell.v, path[:-1])
    p = path[-1]
    if isinstance(p, int):
        v.f[p] = val
    elif p[0] == 'sym':
        e = p[1]
        for i in range(len(v.f)):
            v.f[i] = IntV(z3.If(e == z3.BitVecVal(i, e.size()), zi(val), zi(v.f[i])), v.f[i].ty)
    elif p[0] == 'dc':
        v.payload[p[1]] = val
    else:
        raise Inconclusive('set path element %r' % (p,))


def deref(r):
    if r.cell.freed:
        raise UseAfterFree(r)
    return get_path(r.cell.v, r.path)


def store(r, val): set_path(r.cell, r.path, val)


def sv(x):
    """strip references"""
    while isinstance(x, Ref): x = deref(x)
    return x


class UseAfterFree(Exception):
    def __init__(self, ref): self.ref = ref


def copy_val(v):
    """value copy for `copy` operands / Clone of plain data (shares cells behind refs)"""
    if isinstance(v, ClosureV): return ClosureV(v.tag, [copy_val(x) for x in v.f], v.subst)
    if isinstance(v, Agg): return Agg([copy_val(x) for x in v.f], v.ty)
    if isinstance(v, Enum): return Enum(v.ty, v.disc, {k: copy_val(p) for k, p in v.payload.items()})
    if isinstance(v, PyMap): return PyMap([(copy_val(k), copy_val(x)) for k, x in v.entries], v.ty)
    if isinstance(v, Iter): return Iter(list(v.items), v.pos, v.ops, v.count, v.src)
    return v


class Cloner:
    """deep copy of a state's heap preserving sharing (cells keep their ids)"""

    def __init__(self): self.memo = {}

    def cell(self, c):
        n = self.memo.get(c.id)
        if n is not None: return n
        n = Cell.__new__(Cell); n.id = c.id; n.freed = c.freed; n.tag = c.tag; n.v = None
        self.memo[c.id] = n
        n.v = self.val(c.v)
        return n

    def val(self, v):
        if v is None or isinstance(v, (IntV, Unit, bool, int, str, StrV, RopeV, Opaque, FnItem, External, z3.ExprRef, bytes, frozenset)):
            return v
        if isinstance(v, tuple): return tuple(self.val(x) for x in v)
        if isinstance(v, Ref): return Ref(self.cell(v.cell), v.path, v.meta)
        if isinstance(v, ClosureV): return ClosureV(v.tag, [self.val(x) for x in v.f], v.subst)
        if isinstance(v, Agg): return Agg([self.val(x) for x in v.f], v.ty)
        if isinstance(v, Enum): return Enum(v.ty, v.disc, {k: self.val(p) for k, p in v.payload.items()})
        if isinstance(v, PyMap): return PyMap([(self.val(k), self.val(x)) for k, x in v.entries], v.ty)
        if isinstance(v, Iter): return Iter([self.val(x) for x in v.items], v.pos, v.ops, v.count, self.val(v.src))
        if isinstance(v, list): return [self.val(x) for x in v]
        if isinstance(v, dict): return {k: self.val(x) for k, x in v.items()}
        if isinstance(v, set): return set(v)
        if hasattr(v, 'clone_with'): return v.clone_with(self)
        if isinstance(v, Cell): return self.cell(v)
        if callable(v): return v
        raise Inconclusive('cannot clone value of type ' + type(v).__name__)


def some(x): return Enum('Option', 1, {1: Agg([x])})


def none(): return Enum('Option', 0, {})


def ok(x): return Enum('Result', 0, {0: Agg([x])})


def err(x): return Enum('Result', 1, {1: Agg([x])})


def vec(items): return Agg(items, 'Vec')

"""Contract for simd-json as used by source.rs (C15): 'a faithful JSON binding of the serde data model'.

What is interpreted from MIR (the crate's own code, never modelled): SourceMap::to_json / to_writer / from_json / from_slice /
from_reader, RawSourceMap::from_*, the derive-generated `impl Serialize for SourceMap` (field set, renames, the
skip_serializing_if predicates incl. `is_all_empty`), the derive-generated `impl Deserialize for RawSourceMap` (__FieldVisitor,
__Visitor::visit_map / visit_seq: key recognition, duplicate / missing fields, ignored keys) and `TryFrom<RawSourceMap>`.

What is the contract (trusted, stated in the evidence): simd_json::serde::{to_string, to_writer} drive T::serialize with a
Serializer that writes each serde data-model event as the JSON text RFC 8259 defines for it; simd_json::serde::{from_slice,
from_reader} parse the bytes as strict RFC 8259 JSON (anything else is Err) and drive T::deserialize with a Deserializer that
presents the parsed value through deserialize_struct -> visit_map (objects, keys in document order, duplicates kept) or
visit_seq (arrays). std/serde impls of Deserialize for String / Option<T> / Vec<T> / IgnoredAny are their documented meaning.
The JSON text between the two halves is REAL text: the write side renders it, the read side parses it with Python's json
module (an independent parser)."""
import json, re
import z3
from .mir import Inconclusive
from .values import *
from .machine import PUSHED
from .contracts import contract, call_then, as_str, disc_of, bool_val


# ------------------------------------------------------------------------------------------------ write side
class SerV:
    rtype = 'JsonSerializer'

    def clone_with(self, cl): return self


class SerStructV:
    """SerializeStruct state: recorded (key, python value) pairs in emission order"""
    rtype = 'JsonSerializeStruct'

    def __init__(self, name=None, declared=None): self.name, self.declared, self.fields, self.skipped = name, declared, [], []

    def clone_with(self, cl):
        s = SerStructV(self.name, self.declared); s.fields = list(self.fields); s.skipped = list(self.skipped); return s


def _pytext(x):
    x = as_str(x)
    if not x.is_conc(): raise Inconclusive('C15 jobs keep string contents concrete (the JSON text between the two halves is real text)')
    return bytes(x.bytes()).decode('utf-8')


def to_py(m, st, v):
    """serde data model of a value -> python (str / int / None / list); Option forks on a symbolic discriminant"""
    v = sv(v)
    if isinstance(v, StrV): return _pytext(v)
    if isinstance(v, IntV):
        c = conc_int(v)
        if c is None: raise Inconclusive('symbolic integer in a serialised value')
        return c
    if isinstance(v, Enum) and v.ty == 'Option':
        k = disc_of(m, st, v)
        return None if k == 0 else to_py(m, st, v.payload[1].f[0])
    if isinstance(v, Agg) and v.ty == 'Vec': return [to_py(m, st, e) for e in v.f]
    raise Inconclusive('serialise %r' % (v,))


def render_json(fields):
    """the JSON text of a struct: members in emission order, compact separators (simd-json's writer emits no blanks)"""
    return '{' + ','.join(json.dumps(k, ensure_ascii=False) + ':' + json.dumps(v, ensure_ascii=False, separators=(',', ':')) for k, v in fields) + '}'


@contract(r'Serializer>::serialize_struct$', 2)
def c_ser_struct(m, st, f, a):
    if not isinstance(sv(a[0]), SerV): return NotImplemented
    n = conc_int(a[2])
    return ok(SerStructV(_pytext(a[1]), n))


@contract(r'SerializeStruct>::serialize_field::<', 2)
def c_ser_field(m, st, f, a):
    s = sv(a[0])
    if not isinstance(s, SerStructV): return NotImplemented
    s.fields.append((_pytext(a[1]), to_py(m, st, a[2])))
    return ok(UNIT)


@contract(r'SerializeStruct>::skip_field$', 2)
def c_ser_skip(m, st, f, a):
    s = sv(a[0])
    if not isinstance(s, SerStructV): return NotImplemented
    s.skipped.append(_pytext(a[1]))
    return ok(UNIT)


@contract(r'SerializeStruct>::end$', 2)
def c_ser_end(m, st, f, a):
    s = sv(a[0])
    if not isinstance(s, SerStructV): return NotImplemented
    if s.declared is not None and s.declared != len(s.fields):
        # serde_json/simd-json ignore the declared length for maps; recorded for the oracle
        st.extra.setdefault('json_notes', []).append('declared %d fields, emitted %d' % (s.declared, len(s.fields)))
    return ok(Opaque('JsonText', render_json(s.fields)))


def _serialize_item(m):
    c = [k for k, v in m.idx.items.items() if v.kind == 'fn' and k.endswith('>::serialize') and k.startswith('source::_::<impl at src/source.rs')]
    if len(c) != 1: raise Inconclusive('derive(Serialize) item of SourceMap: %d candidates' % len(c))
    return c[0]


def _de_items(m):
    """item names of the derive(Deserialize) expansion for RawSourceMap"""
    d = getattr(m, '_json_de_items', None)
    if d is None:
        d = {}
        for k, v in m.idx.items.items():
            if v.kind != 'fn' or not k.startswith('source::_::<impl at src/source.rs'): continue
            mm = re.match(r'^source::_::<impl at ([^>]*)>::deserialize(?:::<impl at ([^>]*)>::(\w+))?$', k)
            if not mm: continue
            if mm.group(3) is None: d['deserialize'] = k
            elif mm.group(3) == 'deserialize': d['field_deserialize'] = k
            else: d[mm.group(3)] = k
        for need in ('deserialize', 'field_deserialize', 'visit_str', 'visit_map', 'visit_seq'):
            if need not in d: raise Inconclusive('derive(Deserialize) item %s of RawSourceMap not found' % need)
        # the derive-generated key enum (not in the source text): one variant per field, then __ignore
        n = len(m.idx.structs.get('RawSourceMap') or [])
        if not n: raise Inconclusive('struct RawSourceMap not found')
        m.idx.enums.setdefault('__Field', ['__field%d' % i for i in range(n)] + ['__ignore'])
        m._json_de_items = d
    return d


def _after_ser(m, st, saved, res):
    r = sv(res)
    if r.disc != 0: return r
    txt = sv(r.payload[0].f[0]).data
    st.extra.setdefault('json_texts', []).append(txt)
    return ok(mkstr(txt))


@contract(r'^(simd_json::)?(serde::)?to_string::<SourceMap>$', 2)
def c_json_to_string(m, st, f, a):
    return call_then(m, st, FnItem(_serialize_item(m)), [a[0], SerV()], _after_ser)


def _after_ser_writer(m, st, saved, res):
    from .textmodel import WriterV
    r = sv(res)
    if r.disc != 0: return r
    txt = sv(r.payload[0].f[0]).data
    w = sv(saved)
    if isinstance(w, Agg) and w.ty == 'Vec':          # impl Write for Vec<u8>: appends
        w.f.extend(IntV(b, 'u8') for b in txt.encode('utf-8')); return ok(UNIT)
    if not isinstance(w, WriterV): raise Inconclusive('to_writer into %r' % (w,))
    bs = list(txt.encode('utf-8'))
    if w.failed or (w.limit is not None): raise Inconclusive('C15 jobs use an unlimited writer')
    w.buf.extend(bs)
    return ok(UNIT)


@contract(r'^(simd_json::)?(serde::)?to_writer::<SourceMap, ', 2)
def c_json_to_writer(m, st, f, a):
    return call_then(m, st, FnItem(_serialize_item(m)), [a[1], SerV()], _after_ser_writer, a[0])


# ------------------------------------------------------------------------------------------------ read side
class DocV:
    """a parsed JSON value presented to a Deserializer. node: ('obj', [(key, node)]) | ('arr', [node]) | ('str', s) | ('null',) |
    ('num', x) | ('bool', b); abstract documents may also contain ('opt', z3 Bool is_null, node) and object members
    (key, node, present z3 Bool) and a symbolic member order (order = list of z3 BV8 selectors)"""
    rtype = 'JsonDoc'

    def __init__(self, node, order=None): self.node, self.order, self.pos, self.left, self.cur = node, order, 0, None, None

    def clone_with(self, cl):
        d = DocV(self.node, self.order); d.pos = self.pos; d.left = None if self.left is None else list(self.left); d.cur = self.cur; return d


class KeyDeV:
    rtype = 'JsonKey'

    def __init__(self, key): self.key = key

    def clone_with(self, cl): return self


class _Dup(Exception): pass


def parse_strict(bs):
    """strict RFC 8259 parse -> node; raises ValueError"""
    try: text = bytes(bs).decode('utf-8')
    except UnicodeDecodeError as e: raise ValueError('invalid UTF-8')
    def const(c): raise ValueError('non-standard constant ' + c)
    def pairs(ps): return ('obj', [(k, v) for k, v in ps])
    def conv(v):
        if isinstance(v, tuple): return v if v[0] != 'obj' else ('obj', [(k, conv(x)) for k, x in v[1]])
        if v is None: return ('null',)
        if isinstance(v, bool): return ('bool', v)
        if isinstance(v, (int, float)): return ('num', v)
        if isinstance(v, str): return ('str', v)
        if isinstance(v, list): return ('arr', [conv(x) for x in v])
        raise ValueError('unexpected')
    v = json.loads(text, parse_constant=const, object_pairs_hook=pairs)
    return conv(v)


def _bytes_of(x):
    x = sv(x)
    if isinstance(x, StrV): bs = list(x.bytes())
    elif isinstance(x, Agg): bs = [b.e if isinstance(b, IntV) else b for b in x.f]
    else: raise Inconclusive('JSON input %r' % (x,))
    if not all(isinstance(b, int) for b in bs): raise Inconclusive('C15 jobs keep document bytes concrete (abstract documents are passed by marker)')
    return bytes(bs)


MARK = b'\x00JSONDOC:'


def _doc_for(st, bs):
    if bs.startswith(MARK):
        d = st.extra['json_docs'][int(bs[len(MARK):])]
        return DocV(d['node'], d.get('order'))
    return DocV(parse_strict(bs))


def _json_err(msg): return err(Opaque('simd_json::Error', msg))


def _after_de(m, st, saved, res): return res


def _from_bytes(m, st, bs):
    try: doc = _doc_for(st, bs)
    except ValueError as e: return _json_err('syntax: %s' % e)
    return call_then(m, st, FnItem(_de_items(m)['deserialize']), [doc], _after_de)


@contract(r"^(simd_json::)?(serde::)?from_slice::<'_, RawSourceMap>$", 2)
def c_json_from_slice(m, st, f, a):
    return _from_bytes(m, st, _bytes_of(a[0]))


@contract(r'^(simd_json::)?(serde::)?from_reader::<.*, RawSourceMap>$', 2)
def c_json_from_reader(m, st, f, a):
    """the reader is a byte slice in the jobs (impl Read for &[u8]): read to the end, then parse"""
    return _from_bytes(m, st, _bytes_of(a[0]))


def _invalid_type(what): return _json_err('invalid type: ' + what)


@contract(r"Deserializer<'_>>::deserialize_struct::<", 2)
def c_de_struct(m, st, f, a):
    d = sv(a[0])
    if not isinstance(d, DocV): return NotImplemented
    it = _de_items(m)
    if d.node[0] == 'obj':
        d.left = list(range(len(d.node[1]))); d.pos = 0
        return call_then(m, st, FnItem(it['visit_map']), [a[3], d], _after_de)
    if d.node[0] == 'arr':
        d.pos = 0
        return call_then(m, st, FnItem(it['visit_seq']), [a[3], d], _after_de)
    return _invalid_type('expected a map for struct RawSourceMap, found ' + d.node[0])


def _after_key(m, st, saved, res):
    r = sv(res)
    if r.disc != 0: return r
    return ok(some(r.payload[0].f[0]))


@contract(r"MapAccess<'_>>::next_key::<", 2)
def c_ma_next_key(m, st, f, a):
    d = sv(a[0])
    if not isinstance(d, DocV): return NotImplemented
    members = d.node[1]
    # all decisions first (a fork re-executes this step: nothing may be mutated before the last branch)
    left, pos = list(d.left), d.pos
    while True:
        if not left:
            d.left, d.pos, d.cur = [], pos, None; return ok(none())
        if d.order is not None and len(left) > 1:
            sel = d.order[pos]; pick = None
            for j in left[:-1]:
                if m.branch(st, sel == z3.BitVecVal(j, sel.size())): pick = j; break
            if pick is None: pick = left[-1]
        else: pick = left[0]
        left.remove(pick); pos += 1
        mem = members[pick]
        if len(mem) > 2 and not bool_val(m, st, mem[2]): continue       # member absent in this document
        d.left, d.pos, d.cur = left, pos, mem[1]
        st.extra['json_order'] = list(st.extra.get('json_order', [])) + [pick]
        return call_then(m, st, FnItem(_de_items(m)['field_deserialize']), [KeyDeV(mem[0])], _after_key)


@contract(r"Deserializer<'_>>::deserialize_identifier::<", 2)
def c_de_identifier(m, st, f, a):
    k = sv(a[0])
    if not isinstance(k, KeyDeV): return NotImplemented
    return call_then(m, st, FnItem(_de_items(m)['visit_str']), [a[1], mkstr(k.key)], _after_de)


def resolve_any(m, st, node):
    """('any', selector BV8, [alternatives]): the member's JSON type is picked by the solver"""
    while node[0] == 'any':
        sel, alts = node[1], node[2]
        pick = None
        for j in range(len(alts) - 1):
            if m.branch(st, sel == z3.BitVecVal(j, sel.size())): pick = j; break
        node = alts[len(alts) - 1 if pick is None else pick]
    return node


def value_as(m, st, node, ty):
    """std/serde Deserialize impls for the types RawSourceMap uses -> Result value"""
    ty = ty.strip()
    node = resolve_any(m, st, node)
    if node[0] == 'opt':
        if bool_val(m, st, node[1]): node = ('null',)
        else: node = node[2]
    if ty == 'IgnoredAny' or ty.endswith('::IgnoredAny'): return ok(UNIT)
    mo = re.match(r'^(?:std::option::|core::option::)?Option<(.*)>$', ty)
    if mo:
        if node[0] == 'null': return ok(none())
        r = value_as(m, st, node, mo.group(1))
        return r if r.disc != 0 else ok(some(r.payload[0].f[0]))
    if ty in ('std::string::String', 'String'):
        if node[0] == 'str': return ok(mkstr(node[1]) if isinstance(node[1], str) else node[1])
        return _invalid_type('expected a string, found ' + node[0])
    mo = re.match(r'^(?:std::vec::)?Vec<(.*)>$', ty)
    if mo:
        if node[0] != 'arr': return _invalid_type('expected a sequence, found ' + node[0])
        out = []
        for e in node[1]:
            r = value_as(m, st, e, mo.group(1))
            if r.disc != 0: return r
            out.append(r.payload[0].f[0])
        return ok(vec(out))
    raise Inconclusive('Deserialize contract for type ' + ty)


def _targ(f):
    i = f.rindex('::<'); return f[i + 3:-1]


@contract(r"MapAccess<'_>>::next_value::<", 2)
def c_ma_next_value(m, st, f, a):
    d = sv(a[0])
    if not isinstance(d, DocV): return NotImplemented
    if d.cur is None: raise Inconclusive('next_value without a key')
    r = value_as(m, st, d.cur, _targ(f))          # may fork: mutate afterwards
    d.cur = None
    return r


@contract(r"SeqAccess<'_>>::next_element::<", 2)
def c_sa_next_element(m, st, f, a):
    d = sv(a[0])
    if not isinstance(d, DocV): return NotImplemented
    items = d.node[1]
    if d.pos >= len(items): return ok(none())
    r = value_as(m, st, items[d.pos], _targ(f))    # may fork: mutate afterwards
    d.pos += 1
    return r if r.disc != 0 else ok(some(r.payload[0].f[0]))


@contract(r'de::Error>::(duplicate_field|missing_field|unknown_field|invalid_length|custom|invalid_type|invalid_value|unknown_variant)', 2)
def c_de_error(m, st, f, a):
    kind = re.search(r'Error>::(\w+)', f).group(1)
    arg = ''
    for x in a:
        try: arg = _pytext(x); break
        except Exception: pass
    return Opaque('simd_json::Error', '%s %s' % (kind, arg))


@contract(r"__private::de::missing_field::<", 2)
def c_missing_field(m, st, f, a):
    """serde: a missing field of Option type reads as None, any other type is the error missing_field"""
    ty = f[f.index("::<'_, ") + 7:] if "::<'_, " in f else _targ(f)
    first = ty.split(', <')[0].strip()
    if re.match(r'^(?:std::option::|core::option::)?Option<', first): return ok(none())
    return err(Opaque('simd_json::Error', 'missing_field %s' % _pytext(a[0])))

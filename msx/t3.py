import sys, time
sys.path.insert(0, '/tmp/msx')
from msx2 import *
import msx
text = open('/tmp/mirprobe/mir.txt').read()
items = split_items(text)

class ByteIter:
    def __init__(self, arr, pos, end): self.arr, self.pos, self.end = arr, pos, end
# clone support
_oc = msx.clone_state
import msx2
_orig_clone = msx2.clone_state2
def c_bytes_into_iter(m, st, fr, fname, argv): return argv[0]
def c_bytes_next(m, st, fr, fname, argv):
    it = deref(argv[0])
    it = deref(it) if isinstance(it, Ref) else it
    pos, end = it.f[1], it.f[2]
    if pos < end:
        it.f[1] = pos + 1
        return Enum(1, {1: Agg([Ref(Cell(IntV(z3.Select(it.f[0], z3.BitVecVal(pos, 64)), 'u8')))])})
    return Enum(0, {})
contracts2 = dict(contracts)
contracts2[r'^<&mut std::slice::Iter<.*u8> as IntoIterator>::into_iter$'] = c_bytes_into_iter
contracts2[r'^<&mut std::slice::Iter<.*u8> as Iterator>::next$'] = c_bytes_next

def run_decoder(L, alphabet_constraint=None, cap_paths=200000):
    m = Machine2(items, contracts2, loop_bound=L + 2)
    arr = z3.Array('s', z3.BitVecSort(64), z3.BitVecSort(8))
    st = State()
    if alphabet_constraint:
        for i in range(L): st.pc.append(alphabet_constraint(z3.Select(arr, z3.BitVecVal(i, 64)), i))
    # MappingsDecoder { mappings_iter, current_data:[u32;5], current_data_pos: usize, current_value: i64, current_value_pos: usize, generated_line: u32 }
    dec = Cell(Agg([Agg([arr, 0, L]), Agg([bv(0,'u32'), bv(0,'u32'), bv(1,'u32'), bv(0,'u32'), bv(0,'u32')]), bv(0,'usize'), bv(0,'i64'), bv(0,'usize'), bv(1,'u32')]))
    it = m.find('decoder::<impl at src/decoder.rs:58:1: 58:38>::next')
    m.push_frame(st, it, [Ref(dec)], None, None)
    t0 = time.time()
    outs = m.run(st, until_depth=0)
    pan = [(s2, rv) for s2, rv in outs if isinstance(rv, Panic)]
    print(f'L={L}: paths={len(outs)} panics={len(pan)} queries={m.queries} solver={m.solver_time:.1f}s wall={time.time()-t0:.1f}s')
    for s2, rv in pan[:2]:
        sol = z3.Solver(); sol.add(*s2.pc); assert sol.check() == z3.sat
        mod = sol.model()
        wit = bytes(mod.eval(z3.Select(arr, z3.BitVecVal(i, 64)), model_completion=True).as_long() for i in range(L))
        print('   PANIC:', rv.msg[:90], ' witness string =', wit)

# ByteIter as Agg([arr,pos,end]) needs clone of python ints -> fine. z3 Array in Agg: cv handles z3 exprs.
# continuation-only alphabet forces long runs: chars g..z,0-9,+,/ have the continuation bit; allow all base64 + , ;
def b64only(c):
    return z3.Or(z3.And(c >= ord('A'), c <= ord('Z')), z3.And(c >= ord('a'), c <= ord('z')), z3.And(c >= ord('0'), c <= ord('9')), c == ord('+'), c == ord('/'), c == ord(','), c == ord(';'))

run_decoder(3, lambda c, i: b64only(c))
run_decoder(14, lambda c, i: z3.And(c >= ord('g'), c <= ord('z')) if i < 13 else z3.And(c >= ord('A'), c <= ord('Z')))
run_decoder(12, lambda c, i: z3.And(c >= ord('g'), c <= ord('z')) if i < 11 else z3.And(c >= ord('A'), c <= ord('Z')))

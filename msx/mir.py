"""MIR text front end: splits the nightly `-Zunpretty=mir` dump of /repo into items, pre-parses bodies,
reads closure aggregate operand lists from the `-Zunpretty=stable-mir` dump (the classic printer drops
operands of closures with disjoint field captures), and indexes impl blocks / enums from the crate source."""
import re, os, hashlib

INT_TYPES = {'u8': 8, 'u16': 16, 'u32': 32, 'u64': 64, 'usize': 64, 'i8': 8, 'i16': 16, 'i32': 32, 'i64': 64,
             'isize': 64, 'u128': 128, 'i128': 128, 'char': 32}
SIGNED = {'i8', 'i16', 'i32', 'i64', 'isize', 'i128'}


class Inconclusive(Exception):
    """the machinery cannot decide (unmodelled construct / callee, loop bound, solver unknown)"""


class Item:
    __slots__ = ('kind', 'name', 'header', 'body', 'parsed', 'line0', 'nice', 'impl_key', 'impl_ty')

    def __init__(self, kind, name, header, body, line0):
        self.kind, self.name, self.header, self.body, self.line0 = kind, name, header, body, line0
        self.parsed = None
        self.nice = None
        self.impl_key = None
        self.impl_ty = None

    def nlines(self):
        return len(self.body or []) + 1

    def digest(self):
        h = hashlib.sha256()
        h.update(self.header.encode())
        for l in self.body or []:
            h.update(l.encode())
        return h.hexdigest()[:12]


def split_top(s, sep=','):
    """split on sep at nesting depth 0 of ()[]{}<> and outside string / char literals"""
    out, depth, cur, i, n = [], 0, [], 0, len(s)
    instr = False
    while i < n:
        c = s[i]
        if instr:
            cur.append(c)
            if c == '\\':
                cur.append(s[i + 1]); i += 1
            elif c == '"':
                instr = False
        elif c == '"':
            instr = True; cur.append(c)
        elif c == "'" and i + 2 < n and (s[i + 2] == "'" or (s[i + 1] == '\\' and "'" in s[i + 2:i + 12])):
            # char literal 'x' or '\n' / '\u{..}'
            j = s.index("'", i + 2 if s[i + 1] != '\\' else i + 3)
            cur.append(s[i:j + 1]); i = j
        elif c in '([{<':
            depth += 1; cur.append(c)
        elif c in ')]}>':
            if c == '>' and i > 0 and s[i - 1] in '-=':
                cur.append(c)
            else:
                depth -= 1; cur.append(c)
        elif c == sep and depth == 0:
            out.append(''.join(cur).strip()); cur = []
        else:
            cur.append(c)
        i += 1
    t = ''.join(cur).strip()
    if t:
        out.append(t)
    return out


def split_items(text):
    items, order = {}, []
    lines = text.split('\n')
    i, n = 0, len(lines)
    while i < n:
        l = lines[i]
        if l and not l.startswith(' ') and l.startswith(('fn ', 'const ', 'static ')):
            kind = l.split(' ', 1)[0]
            if l.rstrip().endswith('{'):
                j = i + 1
                while lines[j] != '}':
                    j += 1
                body, header, nxt = lines[i + 1:j], l, j + 1
            else:
                body, header, nxt = None, l, i + 1
            if kind == 'fn':
                mm = re.match(r'^fn (.*?)\((?:_1: |\) ->)', header)
                name = mm.group(1) if mm else header[3:].split('(')[0]
            else:
                mm = re.match(r'^(?:const|static)(?: mut)? (.*?): ', header)
                name = mm.group(1)
            it = Item(kind, name, header, body, i + 1)
            if name not in items:
                items[name] = it
                order.append(it)
            i = nxt
        else:
            i += 1
    return items


# ------------------------------------------------------------------------------------------- bodies
class Body:
    __slots__ = ('locals', 'blocks', 'nargs', 'ret_ty', 'arg_tys')

    def __init__(self):
        self.locals, self.blocks, self.nargs, self.ret_ty, self.arg_tys = {}, {}, 0, None, []


_re_let = re.compile(r'^let (?:mut )?_(\d+): (.*);$')
_re_bb = re.compile(r'^bb(\d+)( \(cleanup\))?: \{$')


def parse_body(item):
    if item.parsed is not None:
        return item.parsed
    b = Body()
    if item.kind == 'fn':
        m = re.match(r'^fn .*?\((.*)\) -> (.*) \{$', item.header)
        if not m:
            raise Inconclusive('cannot parse fn header: ' + item.header)
        # the name itself may contain parentheses (dyn FnMut(..)); take the LAST top-level "(...) -> ret {"
        hdr = item.header[:-2]
        k = hdr.rfind(') -> ')
        # find matching '(' for that ')'
        depth, j = 0, k
        while j >= 0:
            if hdr[j] == ')': depth += 1
            elif hdr[j] == '(':
                depth -= 1
                if depth == 0: break
            j -= 1
        params, ret = hdr[j + 1:k], hdr[k + 5:]
        for p in split_top(params):
            mm = re.match(r'^(?:mut )?_(\d+): (.*)$', p)
            if mm:
                b.locals[int(mm.group(1))] = mm.group(2)
                b.nargs = max(b.nargs, int(mm.group(1)))
                b.arg_tys.append(mm.group(2))
        b.locals[0] = ret
        b.ret_ty = ret
    else:
        m = re.match(r'^(?:const|static)(?: mut)? .*?: (.*) = \{$', item.header)
        b.locals[0] = m.group(1) if m else '?'
    cur = None
    for l in item.body or []:
        s = l.strip()
        if not s or s == '}' or s.startswith(('debug ', 'scope ', '//')):
            continue
        if cur is None:
            m = _re_let.match(s)
            if m:
                b.locals[int(m.group(1))] = m.group(2); continue
        m = _re_bb.match(s)
        if m:
            cur = []; b.blocks[int(m.group(1))] = cur; continue
        if cur is not None:
            cur.append(s)
    # pre-parse
    for bbn, stmts in b.blocks.items():
        b.blocks[bbn] = [parse_stmt(s, i == len(stmts) - 1) for i, s in enumerate(stmts)]
    item.parsed = b
    return b


# place parser ------------------------------------------------------------------------------------
_place_cache = {}


def parse_place(s):
    """(local, (proj...)) ; proj: ('deref',) ('field',i,ty) ('downcast',name) ('index',local) ('cindex',i,from_end)
    ('subslice', a, b, from_end)"""
    r = _place_cache.get(s)
    if r is not None:
        return r
    r = _parse_place(s.strip())
    _place_cache[s] = r
    return r


def _parse_place(s):
    pos = 0

    def p():
        nonlocal pos
        if s[pos] == '(':
            pos += 1
            if s[pos] == '*':
                pos += 1
                base = p()
                if s[pos] != ')': raise Inconclusive('place syntax: ' + s)
                pos += 1
                base[1].append(('deref',))
                res = base
            else:
                base = p()
                if s.startswith(' as ', pos):
                    pos += 4
                    m = re.match(r'[A-Za-z_0-9]+', s[pos:]); name = m.group(0); pos += len(name)
                    if s[pos] != ')': raise Inconclusive('place syntax: ' + s)
                    pos += 1
                    base[1].append(('downcast', name)); res = base
                else:
                    if s[pos] != '.': raise Inconclusive('place syntax: ' + s)
                    pos += 1
                    m = re.match(r'\d+', s[pos:]); idx = int(m.group(0)); pos += len(m.group(0))
                    if s[pos] != ':': raise Inconclusive('place syntax: ' + s)
                    pos += 2
                    depth, st0 = 0, pos
                    while True:
                        c = s[pos]
                        if c in '([<{': depth += 1
                        elif c in ')]>}':
                            if c == '>' and s[pos - 1] in '-=': pass
                            elif depth == 0: break
                            else: depth -= 1
                        pos += 1
                    ty = s[st0:pos]
                    pos += 1
                    base[1].append(('field', idx, ty)); res = base
        else:
            m = re.match(r'_(\d+)', s[pos:])
            if not m: raise Inconclusive('place syntax: ' + s)
            pos += len(m.group(0))
            res = [int(m.group(1)), []]
        while pos < len(s) and s[pos] == '[':
            m = re.match(r'\[_(\d+)\]', s[pos:])
            if m:
                res[1].append(('index', int(m.group(1)))); pos += len(m.group(0)); continue
            m = re.match(r'\[(-?)(\d+) of (\d+)\]', s[pos:])
            if m:
                res[1].append(('cindex', int(m.group(2)), bool(m.group(1)))); pos += len(m.group(0)); continue
            m = re.match(r'\[(\d+):(-?)(\d*)\]', s[pos:])
            if m:
                res[1].append(('subslice', int(m.group(1)), int(m.group(3) or 0), bool(m.group(2)))); pos += len(m.group(0)); continue
            raise Inconclusive('index projection: ' + s[pos:])
        return res

    r = p()
    if pos != len(s):
        raise Inconclusive('trailing place text: %r at %d' % (s, pos))
    return r[0], tuple(r[1])


# statements --------------------------------------------------------------------------------------
_IGN = ('StorageLive', 'StorageDead', 'nop', 'FakeRead', 'PlaceMention', 'Retag', 'AscribeUserType', 'Coverage',
        'ConstEvalCounter', 'BackwardIncompatibleDropHint')
_re_assign = re.compile(r'^(.*?) = (.*);$')
_re_goto = re.compile(r'^goto -> bb(\d+);$')
_re_switch = re.compile(r'^switchInt\((.*)\) -> \[(.*)\];$')
_re_assert = re.compile(r'^assert\((!?)(.*?), "(.*)"(?:, .*)?\) -> \[success: bb(\d+), unwind.*\];$')
_re_drop = re.compile(r'^drop\((.*)\) -> \[return: bb(\d+), unwind.*\];$')
_re_call = re.compile(r'^(.*?) = (.*)\) -> \[return: bb(\d+), unwind.*\];$')
_re_call_noret = re.compile(r'^(.*?) = (.*)\) -> unwind.*;$')
_re_setdisc = re.compile(r'^discriminant\((.*)\) = (\d+);$')


def _split_call(s):
    """split 'fname(args' (closing paren already stripped) at the LAST top-level '(' that starts the argument list"""
    depth, i = 0, len(s) - 1
    instr = False
    while i >= 0:
        c = s[i]
        if c == '"' and (i == 0 or s[i - 1] != '\\'):
            instr = not instr
        elif not instr:
            if c in ')]}': depth += 1
            elif c == '>' and not (i > 0 and s[i - 1] in '-='): depth += 1
            elif c in '[{<': depth -= 1
            elif c == '(':
                if depth == 0:
                    return s[:i], s[i + 1:]
                depth -= 1
        i -= 1
    raise Inconclusive('cannot split call: ' + s)


def parse_stmt(s, last):
    if not last:
        if s.startswith(_IGN):
            return ('nop',)
        m = _re_setdisc.match(s)
        if m:
            return ('setdisc', m.group(1), int(m.group(2)))
        if s.startswith('Deinit('):
            return ('nop',)
        if s.startswith('assume('):
            return ('nop',)
        m = _re_assign.match(s)
        if not m:
            raise Inconclusive('statement: ' + s)
        rhs = m.group(2)
        if rhs.startswith('no_retag '):
            rhs = rhs[9:]
        return ('assign', m.group(1), rhs)
    m = _re_goto.match(s)
    if m:
        return ('goto', int(m.group(1)))
    if s == 'return;':
        return ('return',)
    if s == 'unreachable;':
        return ('unreachable',)
    if s.startswith('resume') or s.startswith('unwind '):
        return ('resume',)
    m = _re_switch.match(s)
    if m:
        targets = []
        for t in split_top(m.group(2)):
            k, bbs = t.split(': ')
            targets.append((None if k == 'otherwise' else int(k), int(bbs[2:])))
        return ('switch', m.group(1), targets)
    m = _re_assert.match(s)
    if m:
        return ('assert', bool(m.group(1)), m.group(2), m.group(3), int(m.group(4)))
    m = _re_drop.match(s)
    if m:
        return ('drop', m.group(1), int(m.group(2)))
    m = _re_call.match(s)
    if m:
        fname, args = _split_call(m.group(2))
        return ('call', m.group(1), fname.strip(), split_top(args) if args.strip() else [], int(m.group(3)))
    m = _re_call_noret.match(s)
    if m:
        fname, args = _split_call(m.group(2))
        return ('call', m.group(1), fname.strip(), split_top(args) if args.strip() else [], None)
    m = _re_assign.match(s)      # a block may end in a plain statement only if malformed
    raise Inconclusive('terminator: ' + s)


# ------------------------------------------------------------------------------------------- crate source index
def strip_generics(s):
    """remove <...> groups (keeps leading '<' of qualified paths intact when called on path segments)"""
    out, depth = [], 0
    i = 0
    while i < len(s):
        c = s[i]
        if c == '<':
            depth += 1
        elif c == '>' and not (i > 0 and s[i - 1] in '-='):
            depth -= 1
        elif depth == 0:
            out.append(c)
        i += 1
    return ''.join(out)


class CrateIndex:
    """enums (variant order) and impl blocks of the crate, read from /repo/src; items of the MIR dump"""

    def __init__(self, repo, mir_text, smir_text):
        self.repo = repo
        self.items = split_items(mir_text)
        self.enums = {}           # EnumName -> [variant names]
        self.variant_of = {}      # variant name -> set of (enum, idx)
        self.structs = {}         # StructName -> [field names]
        self.impls = {}           # (Type, Trait|None, method) -> Item
        self.closure_items = {}   # '{closure@...}' -> Item
        self.smir_closures = {}   # (closure tag, dest local, occurrence) -> [operands]
        self.fn_generics = {}     # fn simple name -> [type parameter names] (None when ambiguous)
        self.impl_generics = {}   # impl key -> (impl type params, type pattern args)
        self._src = {}
        self._scan_sources()
        self._index_items()
        self._index_smir(smir_text)

    def src_lines(self, rel):
        if rel not in self._src:
            try:
                self._src[rel] = open(os.path.join(self.repo, rel), encoding='utf-8').read().split('\n')
            except OSError:
                self._src[rel] = []
        return self._src[rel]

    def _scan_sources(self):
        srcdir = os.path.join(self.repo, 'src')
        for fn in sorted(os.listdir(srcdir)):
            if not fn.endswith('.rs'):
                continue
            text = open(os.path.join(srcdir, fn), encoding='utf-8').read()
            # strip comments (line + block) conservatively
            t = re.sub(r'//[^\n]*', '', text)
            t = re.sub(r'/\*.*?\*/', '', t, flags=re.S)
            for m in re.finditer(r'\bfn\s+([A-Za-z_][A-Za-z_0-9]*)\s*<([^>()]*(?:<[^<>]*>[^>()]*)*)>\s*\(', t):
                ps = [q.split(':')[0].strip() for q in split_top(m.group(2))]
                ps = [q for q in ps if q and not q.startswith("'") and not q.startswith('const ')]
                if m.group(1) in self.fn_generics and self.fn_generics[m.group(1)] != ps: self.fn_generics[m.group(1)] = None
                else: self.fn_generics[m.group(1)] = ps
            for m in re.finditer(r'\benum\s+([A-Za-z_][A-Za-z_0-9]*)\s*(?:<[^{]*>)?\s*\{', t):
                name, i = m.group(1), m.end()
                depth, j = 1, i
                while depth:
                    if t[j] in '{(': depth += 1
                    elif t[j] in '})': depth -= 1
                    j += 1
                body = t[i:j - 1]
                vs = []
                for part in split_top(body):
                    part = re.sub(r'#\[[^\]]*\]', '', part).strip()
                    mm = re.match(r'^([A-Za-z_][A-Za-z_0-9]*)', part)
                    if mm:
                        vs.append(mm.group(1))
                self.enums[name] = vs
            for m in re.finditer(r'\bstruct\s+([A-Za-z_][A-Za-z_0-9]*)\s*(?:<[^{(;]*>)?\s*(?:where[^{]*)?\{', t):
                name, i = m.group(1), m.end()
                depth, j = 1, i
                while depth:
                    if t[j] in '{(': depth += 1
                    elif t[j] in '})': depth -= 1
                    j += 1
                fs = []
                for part in split_top(t[i:j - 1]):
                    part = re.sub(r'#\[[^\]]*\]', '', part).strip()
                    mm = re.match(r'^(?:pub(?:\([a-z]+\))?\s+)?([A-Za-z_][A-Za-z_0-9]*)\s*:', part)
                    if mm:
                        fs.append(mm.group(1))
                self.structs[name] = fs
        std = {'Option': ['None', 'Some'], 'Result': ['Ok', 'Err'], 'Cow': ['Borrowed', 'Owned'],
               'ControlFlow': ['Continue', 'Break'], 'Bound': ['Included', 'Excluded', 'Unbounded'],
               'Entry': ['Occupied', 'Vacant']}
        for k, v in std.items():
            self.enums.setdefault(k, v)
        for en, vs in self.enums.items():
            for i, v in enumerate(vs):
                self.variant_of.setdefault(v, set()).add((en, i))

    def mk(self, sname, **kw):
        from .values import Agg
        fs = self.structs.get(sname)
        if fs is None or set(fs) != set(kw):
            raise Inconclusive('struct %s fields %r do not match %r' % (sname, fs, sorted(kw)))
        return Agg([kw[f] for f in fs], sname)

    def fld(self, sname, fname):
        fs = self.structs.get(sname)
        if fs is None or fname not in fs:
            raise Inconclusive('struct %s has no field %s' % (sname, fname))
        return fs.index(fname)

    def variant_index(self, enum_ty, vname):
        if enum_ty in self.enums and vname in self.enums[enum_ty]:
            return self.enums[enum_ty].index(vname)
        c = self.variant_of.get(vname)
        if c and len({i for _, i in c}) == 1:
            return next(iter(c))[1]
        raise Inconclusive('unknown enum variant %s::%s' % (enum_ty, vname))

    def _impl_of(self, rel, l1, c1, l2, c2):
        lines = self.src_lines(rel)
        if not lines or l1 > len(lines):
            return None
        if l1 == l2:
            span = lines[l1 - 1][c1 - 1:c2 - 1]
        else:
            span = ' '.join([lines[l1 - 1][c1 - 1:]] + lines[l1:l2 - 1] + [lines[l2 - 1][:c2 - 1]])
        span = span.strip()
        if span.startswith('impl'):
            t = span[4:].strip()
            iparams = []
            if t.startswith('<'):      # impl generics
                depth = 0
                for i, ch in enumerate(t):
                    if ch == '<': depth += 1
                    elif ch == '>' and t[i - 1] not in '-=':
                        depth -= 1
                        if depth == 0:
                            iparams = [q.split(':')[0].strip() for q in split_top(t[1:i])]
                            iparams = [q for q in iparams if q and not q.startswith("'")]
                            t = t[i + 1:].strip(); break
            t = t.split(' where ')[0].strip()
            parts = re.split(r'\s+for\s+', t)
            if len(parts) == 2:
                trait, ty = parts
            else:
                trait, ty = None, parts[0]
            targs = []
            mm_ = re.match(r'^[^<]*<(.*)>\s*$', ty.strip())
            if mm_: targs = [q for q in split_top(mm_.group(1)) if not q.startswith("'")]
            self.impl_generics[(rel, l1, c1, l2, c2)] = (iparams, targs)
            tb = strip_generics(trait).strip().split('::')[-1] if trait else None
            tyb = re.sub(r"'[a-z_]+\s*", '', strip_generics(ty)).replace('mut ', '').strip().lstrip('&').strip().split('::')[-1]
            if tyb.startswith('dyn '): tyb = 'dyn ' + tyb[4:].split('::')[-1]
            return tyb, tb, (trait or '').strip(), ty.strip()
        # derive attribute: span is the trait name; the type is the next struct/enum declaration
        tb = span.split('::')[-1]
        for k in range(l1 - 1, min(l1 + 40, len(lines))):
            mm = re.search(r'\b(?:struct|enum)\s+([A-Za-z_][A-Za-z_0-9]*)', lines[k])
            if mm:
                return mm.group(1), tb, tb, mm.group(1)
        return None

    def _index_items(self):
        self.impl_info = {}
        for name, it in self.items.items():
            if it.kind != 'fn':
                continue
            m = re.match(r'^fn .*?\(_1: (?:&mut |&)?(\{closure@[^}]*\})', it.header)
            if m and re.search(r'\{closure#\d+\}$', name):
                self.closure_items[m.group(1)] = it
            mm = re.search(r'<impl at (src/[^:]+):(\d+):(\d+): (\d+):(\d+)>::([A-Za-z_0-9]+)$', name)
            if mm:
                key = (mm.group(1),) + tuple(int(x) for x in mm.group(2, 3, 4, 5))
                if key not in self.impl_info:
                    self.impl_info[key] = self._impl_of(*key)
                info = self.impl_info[key]
                if info:
                    tyb, tb, trait_full, ty_full = info
                    self.impls.setdefault((tyb, tb, mm.group(6)), []).append((it, trait_full, ty_full))
                    it.impl_key = key
                    it.impl_ty = ty_full
                    it.nice = ('<%s as %s>::%s' % (ty_full, trait_full, mm.group(6))) if tb else '%s::%s' % (ty_full, mm.group(6))

    def _index_smir(self, text):
        """closure aggregates: '_115 = {closure@src/helpers.rs:543:53: 543:56}(move _116, move _117, _173, _174);'
        keyed by (tag, dest) in order of appearance"""
        cnt = {}
        for m in re.finditer(r'^\s+(\S+) = (\{closure@[^}]*\})\((.*)\);$', text, flags=re.M):
            dest, tag, ops = m.group(1), m.group(2), m.group(3)
            ops = split_top(ops) if ops.strip() else []
            self.smir_closures.setdefault((tag, dest), []).append(ops)

    def find_fn(self, name):
        it = self.items.get(name)
        if it is not None and it.kind == 'fn':
            return it
        return None

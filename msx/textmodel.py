"""Text model contracts: &str / String / Cow<str> / [u8] over StrV, and the Rope contract
("a Rope behaves as the flat string of its pieces" - discharged on the real rope.rs by engine K, property C16)."""
import re
import z3
from .mir import Inconclusive, INT_TYPES
from .values import *
from .machine import Panic, PUSHED, Native, PathDone
from .contracts import (contract, as_str, str_eq, disc_of, payload0, bool_val, call_then, _range_of, _range_kind,
                        _conc_idx, seq_of, drive_iter)


def char_at(s, i):
    """(char IntV, byte length) of the character starting at byte i; symbolic bytes are ASCII by job assumption"""
    b = s.byte(i)
    if not isinstance(b, int):
        return IntV(z3.ZeroExt(24, b), 'char'), 1
    if b < 0x80: return IntV(b, 'char'), 1
    n = 2 if b >> 5 == 0b110 else 3 if b >> 4 == 0b1110 else 4 if b >> 3 == 0b11110 else None
    if n is None or i + n > s.len: raise Inconclusive('text model: invalid UTF-8 lead byte in a str')
    bs = [s.byte(i + k) for k in range(n)]
    if not all(isinstance(x, int) for x in bs): raise Inconclusive('text model: symbolic continuation byte')
    return IntV(ord(bytes(bs).decode('utf-8')), 'char'), n


def is_boundary(s, i):
    if i == 0 or i == s.len: return True
    if i > s.len: return False
    b = s.byte(i)
    if not isinstance(b, int): return True
    return (b & 0xC0) != 0x80


def chars_of(s):
    out, i = [], 0
    while i < s.len:
        c, n = char_at(s, i); out.append((i, c)); i += n
    return out


def char_bytes(c):
    k = conc_int(c)
    if k is None: return [z3.Extract(7, 0, zi(c))]
    return list(chr(k).encode('utf-8'))


# ---------------------------------------------------------------------------------------------- str
@contract(r'^([a-z_]+::)*str::<impl str>::len$|^std::string::String::len$', 2)
def c_str_len(m, st, f, a): return IntV(as_str(a[0]).len, 'usize')


@contract(r'^([a-z_]+::)*str::<impl str>::is_empty$|^std::string::String::is_empty$', 2)
def c_str_is_empty(m, st, f, a): return as_str(a[0]).len == 0


@contract(r'^([a-z_]+::)*str::<impl str>::(as_bytes|as_str|as_ptr)$|^std::string::String::(as_str|as_bytes|as_mut_str)$|^std::string::String::into_bytes$|^std::str::from_utf8_unchecked$', 2)
def c_str_as_bytes(m, st, f, a):
    if f.endswith('into_bytes'): return vec([IntV(b, 'u8') for b in as_str(a[0]).bytes()])
    x = a[0]
    if isinstance(x, Ref) and isinstance(deref(x), StrV): return deref(x)
    return as_str(x)


@contract(r'^std::string::String::from_utf8_unchecked$', 2)
def c_string_from_utf8_unchecked(m, st, f, a):
    v = sv(a[0])
    bs = v.bytes() if isinstance(v, StrV) else [x.e for x in v.f]
    h = m.hooks.get('from_utf8_unchecked')
    if h: h(m, st, bs)
    return StrV(tuple(bs))


@contract(r'^std::string::String::from_utf8$|^(std|core)::str::from_utf8$', 2)
def c_string_from_utf8(m, st, f, a):
    """Ok(text) for valid UTF-8, Err otherwise (concrete bytes are decoded; symbolic bytes are ASCII by job assumption)"""
    v = sv(a[0])
    bs = list(v.bytes()) if isinstance(v, StrV) else [x.e if isinstance(x, IntV) else x for x in v.f]
    if all(isinstance(b, int) for b in bs):
        try: bytes(bs).decode('utf-8')
        except UnicodeDecodeError: return err(Opaque('FromUtf8Error', 'invalid utf-8'))
    return ok(StrV(tuple(bs)))


@contract(r'^std::string::String::from_utf8_lossy$', 2)
def c_from_utf8_lossy(m, st, f, a):
    v = sv(a[0])
    bs = v.bytes() if isinstance(v, StrV) else [x.e for x in v.f]
    if all(isinstance(b, int) for b in bs):
        s = bytes(bs).decode('utf-8', 'replace')
        valid = False
        try: bytes(bs).decode('utf-8'); valid = True
        except UnicodeDecodeError: pass
        return Enum('Cow', 0 if valid else 1, {(0 if valid else 1): Agg([mkstr(s)])})
    # symbolic bytes: ASCII by job assumption
    return Enum('Cow', 0, {0: Agg([StrV(tuple(bs))])})


@contract(r'^std::string::String::(new|with_capacity)$', 2)
def c_string_new(m, st, f, a): return mkstr('')


@contract(r'^std::string::String::push_str$', 2)
def c_push_str(m, st, f, a):
    s = deref(a[0]); x = as_str(a[1])
    store(a[0], StrV(tuple(s.bytes()) + tuple(x.bytes())))
    return UNIT


@contract(r'^std::string::String::push$', 2)
def c_push_char(m, st, f, a):
    s = deref(a[0])
    store(a[0], StrV(tuple(s.bytes()) + tuple(char_bytes(a[1]))))
    return UNIT


@contract(r'^std::string::String::clear$', 2)
def c_string_clear(m, st, f, a): store(a[0], mkstr('')); return UNIT


@contract(r'^<(str|std::string::String|&str|&std::string::String|Cow<.*str>|&Cow<.*str>|&&str|Arc<str>|&Arc<str>) as PartialEq(<.*>)?>::(eq|ne)$', 2)
def c_str_eq(m, st, f, a):
    r = str_eq(as_str(a[0]), as_str(a[1]))
    return b_not(r) if f.endswith('::ne') else r


@contract(r'^<(\[u8\]|&\[u8\]|Vec<u8>|&Vec<u8>|Cow<.*\[u8\]>) as PartialEq(<.*>)?>::(eq|ne)$', 2)
def c_bytes_eq(m, st, f, a):
    def bs(x):
        x = sv(x)
        if isinstance(x, Enum): x = sv(payload0(x, x.disc))
        return list(x.bytes()) if isinstance(x, StrV) else [b.e for b in x.f]
    x, y = bs(a[0]), bs(a[1])
    r = False if len(x) != len(y) else b_and(*[byte_eq(p, q) for p, q in zip(x, y)])
    return b_not(r) if f.endswith('::ne') else r


@contract(r'^<(str|std::string::String|Cow<.*str>|&str|Arc<str>) as (ToString|Clone|ToOwned)>::(to_string|clone|to_owned)$', 2)
def c_str_to_string(m, st, f, a):
    x = deref(a[0]) if isinstance(a[0], Ref) else a[0]
    if isinstance(x, Enum) and f.endswith('clone'): return copy_val(x)
    return as_str(x)


@contract(r'^<(&str|&std::string::String|std::string::String|&mut str) as Into<(std::string::String|Cow<.*>|Arc<str>|Box<str>)>>::into$|^<(std::string::String|Cow<.*str>|Arc<str>) as From<(&str|&std::string::String|std::string::String|&mut str|Cow<.*>)>>::from$|^<impl Into<String> as Into<std::string::String>>::into$', 2)
def c_str_into(m, st, f, a):
    s = as_str(a[0])
    if re.search(r'Into<Cow<|^<Cow<', f):
        owned = 'std::string::String' in f.split(' as ')[0] if 'Into<' in f else 'From<std::string::String' in f
        return Enum('Cow', 1 if owned else 0, {(1 if owned else 0): Agg([s])})
    return s


@contract(r'^Cow::<.*>::(into_owned|to_mut)$', 2)
def c_cow_into_owned(m, st, f, a):
    if f.endswith('to_mut'):
        c = deref(a[0]); k = disc_of(m, st, c)
        x = sv(payload0(c, k)); store(a[0], Enum('Cow', 1, {1: Agg([x])}))
        return Ref(a[0].cell, a[0].path + (('dc', 1), 0))
    c = a[0]; return sv(payload0(c, disc_of(m, st, c)))


@contract(r'^<Cow<.*> as Clone>::clone$', 2)
def c_cow_clone(m, st, f, a): return copy_val(deref(a[0]))


def _slice_checked(m, st, s, rg, f):
    x, y = _range_of(m, st, rg, s.len, _range_kind(f))
    ok_ = x <= y <= s.len and is_boundary(s, x) and is_boundary(s, y)
    return x, y, ok_


@contract(r'^<(str|std::string::String) as Index(Mut)?<.*Range.*>>::index(_mut)?$', 2)
def c_str_index(m, st, f, a):
    s = as_str(a[0]); x, y, ok_ = _slice_checked(m, st, s, a[1], f)
    if not ok_: raise Panic('str slice index out of range / not on a char boundary')
    return s.slice(x, y)


@contract(r'^([a-z_]+::)*str::<impl str>::(get|get_mut)::<.*Range.*>$', 2)
def c_str_get(m, st, f, a):
    s = as_str(a[0]); x, y, ok_ = _slice_checked(m, st, s, a[1], f)
    return some(s.slice(x, y)) if ok_ else none()


@contract(r'^([a-z_]+::)*str::<impl str>::(get_unchecked|get_unchecked_mut)::<.*Range.*>$', 2)
def c_str_get_unchecked(m, st, f, a):
    s = as_str(a[0]); x, y, ok_ = _slice_checked(m, st, s, a[1], f)
    if not ok_: raise Panic('UB: str::get_unchecked outside bounds / char boundaries')
    return s.slice(x, y)


@contract(r'^([a-z_]+::)*str::<impl str>::is_char_boundary$', 2)
def c_is_char_boundary(m, st, f, a):
    s = as_str(a[0]); k = _conc_idx(m, st, a[1], s.len + 1)
    return is_boundary(s, k)


@contract(r'^([a-z_]+::)*str::<impl str>::(ends_with|starts_with)::<(&?&?str|&?&?std::string::String|char|&char)>$', 2)
def c_str_ends_starts(m, st, f, a):
    s = as_str(a[0]); p = sv(a[1])
    pb = char_bytes(p) if isinstance(p, IntV) else list(as_str(p).bytes())
    if len(pb) > s.len: return False
    off = s.len - len(pb) if 'ends_with' in f else 0
    return b_and(*[byte_eq(s.byte(off + i), pb[i]) for i in range(len(pb))])


@contract(r'^([a-z_]+::)*str::<impl str>::(char_indices|chars|bytes)$', 2)
def c_str_chars(m, st, f, a):
    s = as_str(a[0])
    if f.endswith('bytes'): return Iter([IntV(b, 'u8') for b in s.bytes()])
    cs = chars_of(s)
    if f.endswith('chars'): return Iter([c for _, c in cs])
    return Iter([Agg([IntV(i, 'usize'), c]) for i, c in cs])


@contract(r'^([a-z_]+::)*str::<impl str>::trim_end_matches::<(char|&str)>$', 2)
def c_trim_end_matches(m, st, f, a):
    s = as_str(a[0]); p = a[1]
    pb = char_bytes(p) if isinstance(p, IntV) else list(as_str(p).bytes())
    n = s.len
    while n >= len(pb) and len(pb) > 0:
        e = b_and(*[byte_eq(s.byte(n - len(pb) + i), pb[i]) for i in range(len(pb))])
        if not bool_val(m, st, e): break
        n -= len(pb)
    return s.slice(0, n)


@contract(r'^([a-z_]+::)*str::<impl str>::find::<(char|&str)>$', 2)
def c_str_find(m, st, f, a):
    s = as_str(a[0]); p = a[1]
    pb = char_bytes(p) if isinstance(p, IntV) else list(as_str(p).bytes())
    for i in range(0, s.len - len(pb) + 1):
        e = b_and(*[byte_eq(s.byte(i + k), pb[k]) for k in range(len(pb))])
        if bool_val(m, st, e): return some(IntV(i, 'usize'))
    return none()


@contract(r'^memchr(::memchr)?(::memchr)?$|^memchr::memchr::memchr$', 2)
def c_memchr(m, st, f, a):
    needle = a[0]; hay = sv(a[1])
    bs = list(hay.bytes()) if isinstance(hay, StrV) else [x.e for x in hay.f]
    nb = needle.e
    for i, b in enumerate(bs):
        if bool_val(m, st, byte_eq(b, nb)): return some(IntV(i, 'usize'))
    return none()


# ---------------------------------------------------------------------------------------------- Rope (contract)
def as_rope(x):
    x = sv(x)
    if isinstance(x, RopeV): return x
    if isinstance(x, StrV): return RopeV([x])
    raise Inconclusive('expected rope, got %r' % (x,))


@contract(r"^Rope::<'_>::new$|^<Rope<'_> as Default>::default$", 2)
def c_rope_new(m, st, f, a): return RopeV([])


@contract(r"^<Rope<'_> as From<.*>>::from$|^<&str as SourceText<'_>>::into_rope$", 1)
def c_rope_from(m, st, f, a): return RopeV([as_str(a[0])])


@contract(r"^<Rope<'_> as FromIterator<.*>>::from_iter::<", 1)
def c_rope_from_iter(m, st, f, a):
    it = a[0]
    items = it.items[it.pos:] if isinstance(it, Iter) and not it.ops else (it.f if isinstance(it, Agg) else None)
    if items is None: raise Inconclusive('Rope::from_iter over adaptor chain')
    return RopeV([as_str(x) for x in items])


@contract(r"^Rope::<'_>::len$", 1)
def c_rope_len(m, st, f, a): return IntV(as_rope(a[0]).len(), 'usize')


@contract(r"^Rope::<'_>::is_empty$", 1)
def c_rope_is_empty(m, st, f, a): return as_rope(a[0]).len() == 0


@contract(r"^<Rope<'_> as Clone>::clone$", 1)
def c_rope_clone(m, st, f, a): return as_rope(a[0])


@contract(r"^Rope::<'_>::add$", 1)
def c_rope_add(m, st, f, a):
    r = as_rope(deref(a[0])); store(a[0], RopeV(r.pieces + (as_str(a[1]),))); return UNIT


@contract(r"^Rope::<'_>::append$", 1)
def c_rope_append(m, st, f, a):
    r = as_rope(deref(a[0])); store(a[0], RopeV(r.pieces + as_rope(a[1]).pieces)); return UNIT


@contract(r"^Rope::<'_>::(ends_with|starts_with)$", 1)
def c_rope_ends_with(m, st, f, a):
    bs = as_rope(a[0]).bytes()
    p = sv(a[1])
    pb = char_bytes(p) if isinstance(p, IntV) else as_rope(p).bytes()
    if len(pb) > len(bs): return False
    off = len(bs) - len(pb) if 'ends_with' in f else 0
    return b_and(*[byte_eq(bs[off + i], pb[i]) for i in range(len(pb))])


def rope_slice(r, a_, b_):
    out, pos = [], 0
    for p in r.pieces:
        lo, hi = max(a_, pos), min(b_, pos + p.len)
        if lo < hi: out.append(p.slice(lo - pos, hi - pos))
        pos += p.len
    return RopeV(out)


def _rope_range(m, st, r, rg, f):
    n = r.len()
    kind = _range_kind(f)
    x, y = _range_of(m, st, rg, n, kind)
    flat = r.flat()
    ok_ = x <= y <= n and is_boundary(flat, x) and is_boundary(flat, y)
    return x, y, ok_


@contract(r"^Rope::<'_>::byte_slice::<", 1)
def c_rope_byte_slice(m, st, f, a):
    r = as_rope(a[0]); x, y, ok_ = _rope_range(m, st, r, a[1], f)
    if not ok_: raise Panic('Rope::byte_slice: range out of bounds or not on a char boundary')
    return rope_slice(r, x, y)


@contract(r"^Rope::<'_>::get_byte_slice::<", 1)
def c_rope_get_byte_slice(m, st, f, a):
    r = as_rope(a[0]); x, y, ok_ = _rope_range(m, st, r, a[1], f)
    return some(rope_slice(r, x, y)) if ok_ else none()


@contract(r"^Rope::<'_>::byte_slice_unchecked::<", 1)
def c_rope_byte_slice_unchecked(m, st, f, a):
    r = as_rope(a[0]); x, y, ok_ = _rope_range(m, st, r, a[1], f)
    if not ok_: raise Panic('UB: Rope::byte_slice_unchecked outside bounds / char boundaries')
    return rope_slice(r, x, y)


@contract(r"^Rope::<'_>::(get_byte|byte)$", 1)
def c_rope_get_byte(m, st, f, a):
    bs = as_rope(a[0]).bytes(); k = _conc_idx(m, st, a[1], len(bs))
    if f.endswith('get_byte'):
        return some(IntV(bs[k], 'u8')) if k < len(bs) else none()
    if k >= len(bs): raise Panic('Rope::byte index out of bounds')
    return IntV(bs[k], 'u8')


def rope_lines(m, st, r, trailing_empty):
    """lines with their terminators; the newline-ness of every byte is decided on the path"""
    bs = r.bytes(); out, start = [], 0
    for i, b in enumerate(bs):
        if bool_val(m, st, byte_eq(b, 10)):
            out.append(rope_slice(r, start, i + 1)); start = i + 1
    if start < len(bs): out.append(rope_slice(r, start, len(bs)))
    elif trailing_empty and (not bs or True) and start == len(bs) and (len(bs) == 0 or True):
        # str::lines-like behaviour of Rope::lines_impl(true): a trailing line break yields a final empty line
        if len(bs) == 0 or start == len(bs): out.append(RopeV([]))
    return out


@contract(r"^Rope::<'_>::lines_impl$|^Rope::<'_>::lines$", 1)
def c_rope_lines(m, st, f, a):
    r = as_rope(a[0])
    trailing = True if f.endswith('::lines') else bool_val(m, st, a[1])
    ls = rope_lines(m, st, r, trailing)
    return Iter(ls)


@contract(r"^Rope::<'_>::char_indices$", 1)
def c_rope_char_indices(m, st, f, a):
    s = as_rope(a[0]).flat()
    return Iter([Agg([IntV(i, 'usize'), c]) for i, c in chars_of(s)])


@contract(r"^<Rope<'_> as ToString>::to_string$|^Rope::<'_>::(to_string|to_bytes|into_string)$", 1)
def c_rope_to_string(m, st, f, a):
    s = as_rope(a[0]).flat()
    if f.endswith('to_bytes'): return vec([IntV(b, 'u8') for b in s.bytes()])
    return s


@contract(r"^<Rope<'_> as PartialEq(<.*>)?>::(eq|ne)$", 1)
def c_rope_eq(m, st, f, a):
    x, y = as_rope(a[0]).flat(), sv(a[1])
    y = y.flat() if isinstance(y, RopeV) else as_str(y)
    r = str_eq(x, y)
    return b_not(r) if f.endswith('ne') else r


# ---------------------------------------------------------------------------------------------- hashing (recorded)
class HasherV:
    """a Hasher that records its write calls (C14 / C20: 'different hash' = 'different recorded stream')"""
    rtype = 'Hasher'

    def __init__(self): self.log = []

    def clone_with(self, cl):
        h = HasherV(); h.log = list(self.log); return h


def _hasher(x):
    x = sv(x)
    if not isinstance(x, HasherV): raise Inconclusive('hash into %r' % (x,))
    return x


@contract(r'^<(str|&str|std::string::String|Cow<.*str>|&Cow<.*str>|Arc<str>) as Hash>::hash::<', 2)
def c_hash_str(m, st, f, a):
    _hasher(a[1]).log.append(('str', tuple(as_str(a[0]).bytes()))); return UNIT


@contract(r'^<(\[u8\]|&\[u8\]|Vec<u8>|Cow<.*\[u8\]>|&Vec<u8>) as Hash>::hash::<', 2)
def c_hash_bytes(m, st, f, a):
    x = sv(a[0])
    if isinstance(x, Enum): x = sv(payload0(x, disc_of(m, st, x)))
    bs = tuple(x.bytes()) if isinstance(x, StrV) else tuple(b.e for b in x.f)
    _hasher(a[1]).log.append(('bytes', bs)); return UNIT


@contract(r'^<(u8|u16|u32|u64|usize|i32|i64|bool|char) as Hash>::hash::<', 2)
def c_hash_int(m, st, f, a):
    x = sv(a[0])
    _hasher(a[1]).log.append((re.match(r'^<(\w+)', f).group(1), x.e if isinstance(x, IntV) else x)); return UNIT


@contract(r'^<&mut dyn Hasher as Hasher>::write$|^<H as Hasher>::write$|^<dyn Hasher as Hasher>::write$|Hasher>::write$', 3)
def c_hasher_write(m, st, f, a):
    x = sv(a[1])
    bs = tuple(x.bytes()) if isinstance(x, StrV) else tuple(b.e for b in x.f)
    _hasher(a[0]).log.append(('write', bs)); return UNIT


@contract(r'^<.* as Hasher>::write_(u8|u16|u32|u64|usize|i32|i64)$', 3)
def c_hasher_write_int(m, st, f, a):
    _hasher(a[0]).log.append(('write_' + f.rsplit('_', 1)[1], a[1].e)); return UNIT


# ---------------------------------------------------------------------------------------------- format! (subset)
@contract(r'fmt::rt::Argument::<.*>::new_(display|debug)::<', 2)
def c_fmt_arg(m, st, f, a):
    return Opaque('fmtarg', ('display' if 'new_display' in f else 'debug', a[0]))


@contract(r'^(std::fmt::|core::fmt::)?Arguments::<.*>::new::<\d+, \d+>$|^(std::fmt::|core::fmt::)?Arguments::<.*>::new_const::<', 2)
def c_fmt_arguments(m, st, f, a):
    tpl = sv(a[0])
    bs = [x.e for x in tpl.f] if isinstance(tpl, Agg) else list(tpl.bytes())
    args = list(sv(a[1]).f) if len(a) > 1 else []
    return Opaque('fmtargs', (tuple(bs), tuple(args)))


def render_fmt(m, st, fa):
    """nightly's compact format template: 0x00 end, 0xC0 next argument (default formatting), n < 0x80 a literal of n bytes"""
    tpl, args = fa.data
    out, i, k = [], 0, 0
    while i < len(tpl):
        b = tpl[i]
        if b == 0: break
        if b == 0xC0:
            kind, x = args[k].data; k += 1; i += 1
            if kind != 'display': raise Inconclusive('format!: {:?} argument')
            x = sv(x)
            if isinstance(x, IntV):
                c = conc_int(x)
                if c is None: raise Inconclusive('format!: symbolic integer')
                out.extend(str(c).encode())
            else: out.extend(as_str(x).bytes())
        elif b < 0x80:
            out.extend(tpl[i + 1:i + 1 + b]); i += 1 + b
        else:
            raise Inconclusive('format!: formatting options are not modelled (template byte %#x)' % b)
    return StrV(tuple(out))


@contract(r'^((std|alloc|core)::fmt::)?format$', 2)        # the MIR printer trims the path when `format` is unambiguous in the crate
def c_fmt_format(m, st, f, a):
    return render_fmt(m, st, a[0])


# ---------------------------------------------------------------------------------------------- io::Write (recording, fallible)
class WriterV:
    """a std::io::Write that accepts `limit` bytes in total (None = unlimited) and then fails every write"""
    rtype = 'Writer'

    def __init__(self, limit=None): self.limit, self.buf, self.failed = limit, [], False

    def clone_with(self, cl):
        w = WriterV(self.limit); w.buf = list(self.buf); w.failed = self.failed; return w


@contract(r'^<.* as (std::io::)?Write>::write_all$', 2)
def c_write_all(m, st, f, a):
    w = sv(a[0])
    if not isinstance(w, WriterV): return NotImplemented
    x = sv(a[1])
    bs = list(x.bytes()) if isinstance(x, StrV) else [b.e for b in x.f]
    if w.failed: return err(Opaque('io::Error', 'writer failed'))
    if w.limit is None:
        w.buf.extend(bs); return ok(UNIT)
    room = binop('Sub', w.limit, IntV(len(w.buf), 'usize'))
    fits = binop('Ge', w.limit, IntV(len(w.buf) + len(bs), 'usize'))
    if bool_val(m, st, fits):
        w.buf.extend(bs); return ok(UNIT)
    k = m.concretize(st, room, range(0, len(bs)))
    w.buf.extend(bs[:k]); w.failed = True
    return err(Opaque('io::Error', 'writer failed'))


@contract(r"^(std::io::)?IoSlice::<'_>::new$", 2)
def c_ioslice_new(m, st, f, a): return a[0]


@contract(r'^<.* as (std::io::)?Write>::write_vectored$', 2)
def c_write_vectored(m, st, f, a):
    """std: a Vec<u8> takes every slice; the DEFAULT method (any writer that only implements `write`, like the fail-after-k
    writer) forwards the first non-empty slice to `write`, which may accept only part of it; returns the number of bytes taken"""
    w = sv(a[0])
    if not isinstance(w, WriterV): return NotImplemented
    bufs = []
    for e in sv(a[1]).f:
        x = sv(e)
        bufs.append(list(x.bytes()) if isinstance(x, StrV) else [b.e for b in x.f])
    if w.failed: return err(Opaque('io::Error', 'writer failed'))
    if w.limit is None:
        for bs in bufs: w.buf.extend(bs)
        return ok(IntV(sum(len(b) for b in bufs), 'usize'))
    first = next((b for b in bufs if b), [])
    if not first: return ok(IntV(0, 'usize'))
    room = binop('Sub', w.limit, IntV(len(w.buf), 'usize'))
    k = m.concretize(st, room, range(0, len(first))) if not bool_val(m, st, binop('Ge', w.limit, IntV(len(w.buf) + len(first), 'usize'))) else len(first)
    if k == 0:
        w.failed = True; return err(Opaque('io::Error', 'writer failed'))
    w.buf.extend(first[:k])
    return ok(IntV(k, 'usize'))


def hash_value(m, st, h, v):
    """structural Hash (what #[derive(Hash)] / std impls feed into the hasher), recorded"""
    v = sv(v)
    if isinstance(v, StrV): h.log.append(('str', tuple(v.bytes())))
    elif isinstance(v, RopeV): h.log.append(('str', tuple(v.bytes())))
    elif isinstance(v, IntV): h.log.append((v.ty, v.e))
    elif isinstance(v, (bool, z3.BoolRef)): h.log.append(('bool', v))
    elif isinstance(v, Enum):
        k = disc_of(m, st, v)
        h.log.append(('disc', k))
        p = v.payload.get(k)
        if p is not None:
            for x in p.f: hash_value(m, st, h, x)
    elif isinstance(v, Agg):
        if v.ty == 'Vec' or v.ty is None and False: h.log.append(('len', len(v.f)))
        for x in v.f: hash_value(m, st, h, x)
    elif isinstance(v, Unit): pass
    else: raise Inconclusive('hash of %r' % (v,))


@contract(r'^<(std::option::Option<.*>|Option<.*>|Vec<.*>|Arc<\[.*\]>|\[.*\]|\(.*\)|&\[.*\]) as Hash>::hash::<', 4)
def c_hash_struct(m, st, f, a):
    v = sv(a[0])
    h = _hasher(a[1])
    if isinstance(v, Agg) and (f.startswith('<Vec<') or f.startswith('<Arc<[') or f.startswith('<[') or f.startswith('<&[')): h.log.append(('len', len(v.f)))
    hash_value(m, st, h, v); return UNIT


@contract(r'^(std::mem|core::mem)::discriminant::<', 3)
def c_mem_discriminant(m, st, f, a):
    v = sv(a[0]); return IntV(disc_of(m, st, v), 'isize')


@contract(r'^<(std::mem::)?Discriminant<.*> as Hash>::hash::<', 3)
def c_hash_discriminant(m, st, f, a):
    _hasher(a[1]).log.append(('disc', sv(a[0]).e)); return UNIT


@contract(r'^<isize as Hash>::hash::<', 3)
def c_hash_isize(m, st, f, a):
    _hasher(a[1]).log.append(('isize', sv(a[0]).e)); return UNIT

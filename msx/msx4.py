"""Spike part 4: ReplaceSource::stream_chunks on real MIR (concrete positions, scripted unmapped child)."""
import sys, time
sys.path.insert(0, '/tmp/msx')
import msx, msx2, msx3
from msx3 import *

def rope(*pieces): return ('rope', tuple(p for p in pieces if s_len(p) > 0))
def r_len(r): return sum(s_len(p) for p in r[1])
def r_bytes(r):
    out = []
    for p in r[1]: out += [s_byte(p, i) for i in range(s_len(p))]
    return out
def store(ref, val):
    if ref.path: msx.set_path(ref.cell, list(ref.path), val)
    else: ref.cell.v = val

class ContFrame:
    def __init__(self, then, saved, ret_place, ret_bb): self.then, self.saved, self.ret_place, self.ret_bb = then, saved, ret_place, ret_bb
class CallClosureK(Exception):
    def __init__(self, clo, args, then, saved): self.clo, self.args, self.then, self.saved = clo, args, then, saved

class EnumIter:
    def __init__(self, vec, pos, enumerate_): self.vec, self.pos, self.en = vec, pos, enumerate_

# ---- clone extension
_base_clone = msx.clone_state
def clone4(st):
    # reuse msx2 clone but teach it new frame/value kinds via monkeypatching its inner cv through NotImplemented fallbacks
    return _clone_impl(st)
def _clone_impl(st):
    memo = {}
    def cv(v):
        if isinstance(v, (IntV, Unit, External)) or z3.is_expr(v) or v is None or isinstance(v, (int, str, tuple, bool)): return v
        if isinstance(v, ClosureV): return ClosureV(v.tag, [cv(x) for x in v.f])
        if isinstance(v, Agg): return Agg([cv(x) for x in v.f])
        if isinstance(v, Enum): return Enum(v.disc, {k: Agg([cv(x) for x in p.f]) for k, p in v.payload.items()})
        if isinstance(v, Ref): return Ref(cc(v.cell), v.path)
        if isinstance(v, PyVec): return PyVec([cv(x) for x in v.items])
        if isinstance(v, PyMap):
            m = PyMap(); m.entries = [(k, cv(x)) for k, x in v.entries]; return m
        if isinstance(v, ChildSpec): return v
        if isinstance(v, VecIter): return VecIter(cv(v.vec), v.pos)
        if isinstance(v, EnumIter): return EnumIter(cv(v.vec), v.pos, v.en)
        if isinstance(v, Panic): return v
        raise NotImplementedError('clone ' + repr(type(v)))
    def cc(c):
        if c.id in memo: return memo[c.id]
        n = Cell.__new__(Cell); n.id = c.id; memo[c.id] = n; n.v = cv(c.v); return n
    s2 = State()
    s2.pc = list(st.pc); s2.events = list(st.events); s2.steps = st.steps
    for fr in st.frames:
        if isinstance(fr, ScriptFrame):
            nf = ScriptFrame(fr.spec, [cv(x) for x in fr.cbs], fr.options); nf.idx = fr.idx
            nf.ret_place = (cc(fr.ret_place[0]), fr.ret_place[1]); nf.ret_bb = fr.ret_bb
        elif isinstance(fr, ContFrame):
            nf = ContFrame(fr.then, [cv(x) for x in fr.saved], (cc(fr.ret_place[0]), fr.ret_place[1]), fr.ret_bb)
        else:
            nf = Frame.__new__(Frame)
            nf.item, nf.body, nf.bb, nf.ip = fr.item, fr.body, fr.bb, fr.ip
            nf.locals = {i: cc(c) for i, c in fr.locals.items()}
            rp = fr.ret_place
            nf.ret_place = (cc(rp[0]), rp[1]) if isinstance(rp, tuple) else rp
            nf.ret_bb = fr.ret_bb
            nf.visits = dict(getattr(fr, 'visits', {}))
        s2.frames.append(nf)
    s2.extra = {k: cv(v) for k, v in getattr(st, 'extra', {}).items()}
    return s2
msx.clone_state = clone4

class Machine4(Machine3):
    def operand_const(self, s):
        s = s.strip()
        try:
            return super().operand_const(s)
        except NotImplementedError:
            if re.match(r'^[A-Za-z_][A-Za-z_0-9:]*$', s) and s.split('::')[-1][0].isupper(): return ('enumconst', s)
            raise

    def rvalue(self, st, fr, s, dest_ty=None):
        s = s.strip()
        m = re.match(r'^(?:[a-z_]+::)*(ReplacementEnforce|SourceContent)(?:::<[^()]*>)?::([A-Z][A-Za-z]*)(?:\((.*)\))?$', s)
        if m:
            idx = {'Pre': 0, 'Normal': 1, 'Post': 2, 'Raw': 0, 'Lines': 1}[m.group(2)]
            return Enum(idx, {idx: Agg([self.operand(st, fr, x) for x in split_top(m.group(3))] if m.group(3) else [])})
        if re.match(r'^[a-z_:]+::[A-Z][A-Za-z]*::[A-Z][A-Za-z]*$', s): return ('enumconst', s)
        return super().rvalue(st, fr, s, dest_ty)

    def step(self, st):
        fr = st.frames[-1]
        if isinstance(fr, Frame) and fr.body.blocks[fr.bb][fr.ip] == 'return;' and fr.ret_place == 'cont':
            rv = fr.locals[0].v
            st.frames.pop()
            cont = st.frames.pop()
            val = cont.then(cont.saved, rv)
            caller = st.frames[-1]
            cell, path = cont.ret_place
            if not path: cell.v = val
            else: msx.set_path(cell, list(path), val)
            self.jump(st, caller, cont.ret_bb)
            return None
        return super().step(st)

    def call(self, st, fr, dest, fname, argv, retbb):
        if fname == '<T as StreamChunks>::stream_chunks':
            child = sv(argv[0])
            opts = sv(argv[1])
            final = z3.is_true(z3.simplify(opts.f[1]))
            sf = ScriptFrame(child, argv[2:5], final)
            sf.ret_place, sf.ret_bb = self.resolve(st, fr, dest), retbb
            st.frames.append(sf)
            return None
        if fname.startswith('split_into_lines::<'):
            _a0 = sv(argv[0]); _a0 = sv(_a0) if isinstance(_a0, Ref) else _a0
            res = (c_split_lines_str if (isinstance(_a0, tuple) and _a0[0] == 'strv') else c_split_lines_rope)(self, st, fr, fname, argv)
            self.write(st, fr, dest, res); self.jump(st, fr, retbb)
            return None
        m = re.match(r'^<(\{closure@[^}]*\}) as Fn(?:Mut|Once)?<.*>>::call(?:_mut|_once)?$', fname)
        if m:
            tup = argv[1]
            self.invoke_closure(st, argv[0], list(tup.f), self.resolve(st, fr, dest), retbb)
            return None
        try:
            return super().call(st, fr, dest, fname, argv, retbb)
        except CallClosureK as cc:
            cont = ContFrame(cc.then, cc.saved, self.resolve(st, fr, dest), retbb)
            st.frames.append(cont)
            self.invoke_closure(st, cc.clo, cc.args, 'cont', None)
            return None

    def invoke_closure(self, st, cref, args, ret_place, retbb):
        if ret_place == 'cont':
            target = get_path(cref.cell.v, list(cref.path)) if isinstance(cref, Ref) else cref
            it = self.closure_items[target.tag]
            body = parse_body(it)
            nf = Frame(it, body)
            nf.locals[1].v = cref if body.locals[1].startswith('&') else target
            for i, a in enumerate(args): nf.locals[i + 2].v = a
            nf.ret_place, nf.ret_bb = 'cont', None
            st.frames.append(nf)
            return
        return super().invoke_closure(st, cref, args, ret_place, retbb)

def some(x): return Enum(1, {1: Agg([x])})
NONE = lambda: Enum(0, {})
def disc_is(o, k):
    if isinstance(o.disc, int): return o.disc == k
    raise NotImplementedError('symbolic discriminant')

# ---- contracts
def c_opt_filter(m, st, fr, fname, argv):
    o, clo = argv
    if disc_is(o, 0): return NONE()
    x = o.payload[1].f[0]
    tmp = Cell(x)
    def then(saved, rv):
        rv = z3.simplify(rv)
        if z3.is_true(rv): return some(saved[0])
        if z3.is_false(rv): return NONE()
        return Enum(z3.If(rv, z3.BitVecVal(1, 64), z3.BitVecVal(0, 64)), {1: Agg([saved[0]])})
    raise CallClosureK(clo, [Ref(tmp)], then, [x])
def c_opt_map(m, st, fr, fname, argv):
    o, clo = argv
    if disc_is(o, 0): return NONE()
    if isinstance(clo, tuple) and clo[0] == 'fnitem':
        # e.g. SourceContent::Raw constructor passed as fn
        name = clo[1].split('::')[-1]
        idx = {'Raw': 0, 'Lines': 1}[name]
        return some(Enum(idx, {idx: Agg([o.payload[1].f[0]])}))
    raise CallClosureK(clo, [o.payload[1].f[0]], lambda saved, rv: some(rv), [])
def c_opt_and_then2(m, st, fr, fname, argv):
    o, clo = argv
    if disc_is(o, 0): return NONE()
    raise CallClosureK(clo, [o.payload[1].f[0]], lambda saved, rv: rv, [])
def c_opt_is_some_and(m, st, fr, fname, argv):
    o, clo = argv
    if disc_is(o, 0): return z3.BoolVal(False)
    raise CallClosureK(clo, [o.payload[1].f[0]], lambda saved, rv: rv, [])
def c_bool_then(m, st, fr, fname, argv):
    b = z3.simplify(argv[0]); assert z3.is_true(b) or z3.is_false(b), 'symbolic bool::then'
    if z3.is_false(b): return NONE()
    raise CallClosureK(argv[1], [], lambda saved, rv: some(rv), [])
def c_opt_is_some(m, st, fr, fname, argv): o = sv(argv[0]); return z3.BoolVal(disc_is(o, 1))
def c_opt_is_none2(m, st, fr, fname, argv): o = sv(argv[0]); return z3.BoolVal(disc_is(o, 0))
def c_opt_as_ref2(m, st, fr, fname, argv):
    r = argv[0]; o = deref(r)
    if disc_is(o, 0): return NONE()
    return some(Ref(r.cell, r.path + (('dc', 'Some'), 0)))
def c_opt_clone(m, st, fr, fname, argv): return msx.copy_val(deref(argv[0]))
def c_max(m, st, fr, fname, argv):
    a, b = argv; return IntV(z3.If(z3.UGE(a.e, b.e), a.e, b.e), a.ty)
def c_rope_new(m, st, fr, fname, argv): return ('rope', ())
def c_rope_len(m, st, fr, fname, argv): return bv(r_len(sv(argv[0])), 'usize')
def c_rope_clone(m, st, fr, fname, argv): return sv(argv[0])
def c_rope_add(m, st, fr, fname, argv):
    r = deref(argv[0]); s = sv(argv[1])
    store(argv[0], ('rope', r[1] + ((s,) if s_len(s) else ())))
    return UNIT
def c_rope_ends_with(m, st, fr, fname, argv):
    r, c = sv(argv[0]), argv[1]
    bs = r_bytes(r)
    if not bs: return z3.BoolVal(False)
    return z3.simplify(z3.ZeroExt(24, bs[-1]) == c.e)
def c_rope_byte_slice(m, st, fr, fname, argv):
    r, rg = sv(argv[0]), argv[1]
    a, b = z3.simplify(rg.f[0].e), z3.simplify(rg.f[1].e)
    assert z3.is_bv_value(a) and z3.is_bv_value(b), 'symbolic slice range'
    a, b = a.as_long(), b.as_long()
    if not (a <= b <= r_len(r)): raise Panic('byte_slice out of range')
    out, pos = [], 0
    for p in r[1]:
        lo, hi = max(a, pos), min(b, pos + s_len(p))
        if lo < hi: out.append(mkstr(s_arr(p), s_off(p) + lo - pos, hi - lo))
        pos += s_len(p)
    return ('rope', tuple(out))
def c_into_rope(m, st, fr, fname, argv): return rope(sv(argv[0]))
def lines_of_bytes(m, st, pieces_bytes_fn, total, slicer):
    """split [0,total) into lines; each byte's newline-ness must be decided by the path condition"""
    lines, start = [], 0
    for i in range(total):
        c = pieces_bytes_fn(i) == 10
        cs = z3.simplify(c)
        if z3.is_true(cs): isnl = True
        elif z3.is_false(cs): isnl = False
        else:
            y, n = m.feasible(st, c), m.feasible(st, z3.Not(c))
            assert y != n, 'newline undetermined on this path (spike limitation)'
            isnl = y
        if isnl: lines.append(slicer(start, i + 1)); start = i + 1
    if start < total: lines.append(slicer(start, total))
    return lines
def c_split_lines_str(m, st, fr, fname, argv):
    s = sv(argv[0]); s = sv(s) if isinstance(s, Ref) else s
    ls = lines_of_bytes(m, st, lambda i: s_byte(s, i), s_len(s), lambda a, b: mkstr(s_arr(s), s_off(s) + a, b - a))
    return PyVec(ls)
def c_split_lines_rope(m, st, fr, fname, argv):
    r = sv(argv[0]); bs = r_bytes(r)
    def slicer(a, b): return c_rope_byte_slice(m, st, None, None, [r, Agg([bv(a, 'usize'), bv(b, 'usize')])])
    return PyVec(lines_of_bytes(m, st, lambda i: bs[i], len(bs), slicer))
def c_collect_identity(m, st, fr, fname, argv): return argv[0]
def c_slice_iter(m, st, fr, fname, argv): return EnumIter(argv[0], 0, False)
def c_enumerate(m, st, fr, fname, argv): it = argv[0]; return EnumIter(it.vec, it.pos, True)
def c_enum_next(m, st, fr, fname, argv):
    it = deref(argv[0]); v = sv(it.vec)
    if it.pos < len(v.items):
        k = it.pos; it.pos += 1
        elem = Ref(it.vec.cell, it.vec.path + (('vec', k),))
        return some(Agg([bv(k, 'usize'), elem]) if it.en else elem)
    return NONE()
def c_vec_new(m, st, fr, fname, argv): return PyVec([])
def c_mutex_lock(m, st, fr, fname, argv): r = argv[0]; return Enum(0, {0: Agg([Ref(r.cell, r.path + (0,))])})
def c_result_unwrap(m, st, fr, fname, argv):
    o = argv[0]
    if o.disc != 0: raise Panic('unwrap on Err')
    return o.payload[0].f[0]
def c_guard_deref(m, st, fr, fname, argv): return deref(argv[0])
def c_atomic_load(m, st, fr, fname, argv): return deref(argv[0]).f[0]
def c_atomic_store(m, st, fr, fname, argv): deref(argv[0]).f[0] = argv[1]; return UNIT
def c_iter_map(m, st, fr, fname, argv): return ('mapiter', argv[0], argv[1])
def c_collect_sorted_refs(m, st, fr, fname, argv):
    # <Map<Iter<usize>, {closure: |idx| &self.replacements[*idx]}> as Iterator>::collect  (spike shortcut: closure semantics inlined)
    _, it, clo = argv[0]
    idxs = sv(it.vec).items
    repl_ref = clo.f[0]            # captured &self
    self_ref = repl_ref
    base = deref(self_ref)
    out = []
    for iv in idxs:
        k = z3.simplify(iv.e).as_long()
        out.append(Ref(self_ref.cell, self_ref.path + (1, ('vec', k))))
    return PyVec(out)
def c_arc_deref(m, st, fr, fname, argv): return Ref(argv[0].cell, argv[0].path)   # Arc<T> modelled as T in place
def c_refcell_new2(m, st, fr, fname, argv): return Agg([argv[0]])

contracts4 = dict(contracts3)
contracts4.update({
    r'^std::option::Option::<.*>::filter::<': c_opt_filter,
    r'^std::option::Option::<.*>::map::<': c_opt_map,
    r'^std::option::Option::<.*>::and_then::<': c_opt_and_then2,
    r'^std::option::Option::<.*>::is_some_and::<': c_opt_is_some_and,
    r'^std::option::Option::<.*>::is_some$': c_opt_is_some,
    r'^std::option::Option::<.*>::is_none$': c_opt_is_none2,
    r'^std::option::Option::<.*>::as_(ref|mut)$': c_opt_as_ref2,
    r'^<std::option::Option<.*> as Clone>::clone$': c_opt_clone,
    r'bool::<impl bool>::then::<': c_bool_then,
    r'^<u32 as Ord>::max$': c_max,
    r"^Rope::<'_>::new$": c_rope_new,
    r"^Rope::<'_>::len$": c_rope_len,
    r"^<Rope<'_> as Clone>::clone$": c_rope_clone,
    r"^Rope::<'_>::add$": c_rope_add,
    r"^Rope::<'_>::ends_with$": c_rope_ends_with,
    r"^Rope::<'_>::byte_slice::<": c_rope_byte_slice,
    r"^<&str as SourceText<'_>>::into_rope$": c_into_rope,
    r"^<Rope<'_> as From<&(std::string::String|str)>>::from$": c_into_rope,
    r"^split_into_lines::<'_, &str>$": c_split_lines_str,
    r"^split_into_lines::<'_, Rope<'_>>$": c_split_lines_rope,
    r'as Iterator>::collect::<Vec<(&str|Rope<.*>)>>$': c_collect_identity,
    r'core::slice::<impl \[.*\]>::iter$': c_slice_iter,
    r'as Iterator>::enumerate$': c_enumerate,
    r'^<Enumerate<.*> as IntoIterator>::into_iter$': c_identity,
    r'^<Enumerate<.*> as Iterator>::next$': c_enum_next,
    r'^Vec::<.*>::new$': c_vec_new,
    r'^std::sync::Mutex::<.*>::lock$': c_mutex_lock,
    r'^std::result::Result::<.*>::unwrap$': c_result_unwrap,
    r'^<std::sync::MutexGuard<.*> as Deref(Mut)?>::deref(_mut)?$': c_guard_deref,
    r'^Atomic::<bool>::load$': c_atomic_load,
    r'^Atomic::<bool>::store$': c_atomic_store,
    r'^<std::slice::Iter<.*usize> as Iterator>::map::<': c_iter_map,
    r'as Iterator>::collect::<Vec<&Replacement>>$': c_collect_sorted_refs,
    r'^<Arc<T> as Deref>::deref$': c_arc_deref,
    r'^RefCell::<.*>::new$': c_refcell_new2,
})
# specific-before-generic ordering
order = sorted(contracts4, key=lambda k: (0 if ('u8' in k or 'Rope' in k or 'usize> as Iterator>::map' in k or 'Vec<&Replacement>' in k) else 1))
contracts4 = {k: contracts4[k] for k in order}

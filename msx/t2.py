import sys, time
sys.path.insert(0, '/tmp/msx')
from msx2 import *
import msx

text = open('/tmp/mirprobe/mir.txt').read()
items = split_items(text)
m = Machine2(items, contracts, loop_bound=20)

def u32(x): return bv(x, 'u32') if isinstance(x, int) else IntV(x, 'u32')
lenA = z3.BitVec('lenA', 32); lenB = z3.BitVec('lenB', 32); lenC = z3.BitVec('lenC', 32)
oc = z3.BitVec('ocA', 32)
# child A: one-line original text of length lenA>0, one mapped chunk at (1,0)
A = ChildSpec('script',
    events=[('source', u32(0), 'a.js'), ('chunk', True, u32(1), u32(0), (u32(0), u32(1), u32(oc), None))],
    events_final=[('source', u32(0), 'a.js'), ('chunk', False, u32(1), u32(0), (u32(0), u32(1), u32(oc), None))],
    ret=(u32(1), u32(lenA)))
# child B / C: raw one-line text: one unmapped chunk in normal mode, nothing in final mode
def raw(name, ln):
    return ChildSpec('script', events=[('chunk', True, u32(1), u32(0), None)], events_final=[], ret=(u32(1), u32(ln)))
B = raw('B', lenB); C = raw('C', lenC)

def run(tree, final):
    st = State()
    st.pc += [z3.UGT(lenA, 0), z3.ULT(lenA, 100), z3.UGT(lenB, 0), z3.ULT(lenB, 100), z3.UGT(lenC, 0), z3.ULT(lenC, 100)]
    it = m.find('concat_source::<impl at src/concat_source.rs:185:1: 185:35>::stream_chunks')
    cs = Cell(Agg([PyVec(tree)]))
    opts = Cell(Agg([z3.BoolVal(True), z3.BoolVal(final)]))
    cbs = [Cell(External('on_chunk')), Cell(External('on_source')), Cell(External('on_name'))]
    m.push_frame(st, it, [Ref(cs), Ref(opts)] + [Ref(c) for c in cbs], None, None)
    t0 = time.time()
    outs = m.run(st, until_depth=0)
    print(f'  paths={len(outs)} queries={m.queries} wall={time.time()-t0:.2f}s')
    for s2, rv in outs:
        if isinstance(rv, Panic): print('  PANIC', rv.msg); continue
        for name, args in s2.events:
            if name == 'on_chunk':
                ch, mp = args
                orig = mp.f[2]
                o = 'unmapped' if orig.disc == 0 else 'mapped(src=%s, line=%s, col=%s)' % tuple(z3.simplify(x.e) for x in orig.payload[1].f[0].f[:3])
                print('   chunk text=%s gen=(%s,%s) %s' % ('yes' if ch.disc == 1 else 'no', z3.simplify(mp.f[0].e), z3.simplify(mp.f[1].e), o))
            else:
                print('  ', name, [a if not isinstance(a, IntV) else z3.simplify(a.e) for a in args[:2]])
        print('   ret =', [z3.simplify(x.e) for x in rv.f])

print('flat [A,B,C] final=true'); run([A, B, C], True)
print('nested [[A,B],C] final=true'); run([ChildSpec('concat', children=[A, B]), C], True)
print('nested [[A,B],C] final=false'); run([ChildSpec('concat', children=[A, B]), C], False)

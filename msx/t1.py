import sys, time
sys.path.insert(0, '/tmp/msx')
from msx import *

text = open('/tmp/mirprobe/mir.txt').read()
items = split_items(text)
print('items', len(items))

def c_vec_push(m, st, fr, fname, argv):
    r, b = argv
    v = get_path(r.cell.v, list(r.path))
    assert isinstance(v, VecU8)
    v.arr = z3.Store(v.arr, v.len, b.e)
    v.len = z3.simplify(v.len + 1)
    return UNIT

contracts = {r'^Vec::<u8>::push$': c_vec_push}
m = Machine(items, contracts, loop_bound=10)

a = z3.BitVec('a', 32); b = z3.BitVec('b', 32)
st = State()
arr0 = z3.Array('out0', z3.BitVecSort(64), z3.BitVecSort(8))
vcell = Cell(VecU8(arr0, z3.BitVecVal(0, 64)))
it = m.find('encode_vlq')
# assumption: |a-b| < 2^30
delta = z3.If(z3.UGE(a, b), a - b, b - a)
st.pc.append(z3.ULT(delta, z3.BitVecVal(1 << 30, 32)))
st.extra = {'vec': Ref(vcell)}
m.push_frame(st, it, [Ref(vcell), IntV(a, 'u32'), IntV(b, 'u32')], None, None)
t0 = time.time()
outs = m.run(st, until_depth=0)
print('paths', len(outs), 'queries', m.queries, 'solver_s', round(m.solver_time, 2), 'wall', round(time.time() - t0, 2))

# spec check per path: decode digits from array
B64 = b"ABCDEFGHIJKLMNOPQRSTUVWXYZabcdefghijklmnopqrstuvwxyz0123456789+/"
def b64val(ch):  # z3 BV8 char -> BV8 value (ite chain), 255 if not in alphabet
    r = z3.BitVecVal(255, 8)
    for i, c in enumerate(B64):
        r = z3.If(ch == c, z3.BitVecVal(i, 8), r)
    return r
bad = 0
for s2, rv in outs:
    if isinstance(rv, Panic):
        print('PANIC path', rv.msg); bad += 1; continue
    # find vec: the cell clone with same id
    vec = None
    # the vec cell was cloned with states; track via id
    def find_cell(s2):
        return s2.vcell
    # we did not keep a handle; re-find through pc-less approach: store on state at clone -> simple hack below
    vec = s2.extra['vec'].cell.v
    n = z3.simplify(vec.len)
    assert z3.is_bv_value(n), n
    n = n.as_long()
    val = z3.BitVecVal(0, 64); conds = []
    for i in range(n):
        d = b64val(z3.Select(vec.arr, z3.BitVecVal(i, 64)))
        conds.append(d != 255)
        cont = (d & 32) != 0
        conds.append(cont if i < n - 1 else z3.Not(cont))
        val = val | (z3.ZeroExt(56, d & 31) << (5 * i))
    neg = (val & 1) == 1
    mag = z3.LShR(val, 1)
    spec = z3.And(*conds, mag == z3.ZeroExt(32, delta), neg == z3.And(z3.ULT(a, b)))
    sol = z3.Solver(); sol.add(*s2.pc); sol.add(z3.Not(spec))
    r = sol.check()
    print(' path digits', n, 'neg?', 'spec-violation:', r)
    if r != z3.unsat: bad += 1; print(sol.model())
print('BAD' if bad else 'ALL PATHS OK')

import sys, time
sys.path.insert(0, '/tmp/msx')
exec(open('/tmp/msx/t5.py').read().split("textv, chunks = \"ab\\ncd\"")[0])
exec(open('/tmp/msx/t8.py').read().split("def mp(gl, gc, orig):")[0].split("exec(open('/tmp/msx/t7.py')")[1].split("\n",1)[1]) if False else None

def load_smir():
    out = {}
    for l in open('/tmp/mirprobe/smir.txt'):
        mm = re.match(r'^\s+(_\d+) = (\{closure@[^}]*\})\((.*)\);$', l)
        if mm: out[(mm.group(2), mm.group(1))] = split_top(mm.group(3))
    return out
SMIR = load_smir()

def step_script2(self, st):
    fr = st.frames[-1]
    evs = fr.spec.events
    if fr.idx < len(evs):
        ev = evs[fr.idx]; fr.idx += 1
        if ev[0] == 'chunk':
            _, piece, line, col, orig = ev
            self.invoke_closure(st, fr.cbs[0], [some(rope(piece)), mk_mapping(line, col, orig)], None, None)
        elif ev[0] == 'source':
            self.invoke_closure(st, fr.cbs[1], [ev[1], Enum(0, {0: Agg([ev[2]])}), ev[3]], None, None)
        elif ev[0] == 'name':
            self.invoke_closure(st, fr.cbs[2], [ev[1], Enum(0, {0: Agg([ev[2]])})], None, None)
        return None
    st.frames.pop()
    rv = Agg(list(fr.spec.ret))
    cell, path = fr.ret_place
    if not path: cell.v = rv
    else: msx.set_path(cell, list(path), rv)
    self.jump(st, st.frames[-1], fr.ret_bb)
    return None
def step2b(self, st):
    if isinstance(st.frames[-1], ScriptFrame): return step_script2(self, st)
    return _m2step(self, st)
msx2.Machine2.step = step2b

def str_key(s):
    s = sv(s) if isinstance(s, Ref) else s
    s = s.payload[s.disc].f[0] if isinstance(s, Enum) else s
    s = sv(s) if isinstance(s, Ref) else s
    return bytes(z3.simplify(s_byte(s, i)).as_long() for i in range(s_len(s)))
def c_map_get2(m, st, fr, fname, argv):
    mp, key = deref(argv[0]), str_key(argv[1])
    for k, val in mp.entries:
        if k == key: return some(Ref(Cell(val)))
    return NONE()
def c_map_insert2(m, st, fr, fname, argv):
    mp = deref(argv[0]); mp.entries.append((str_key(argv[1]), argv[2])); return NONE()
contracts10 = dict(contracts4)
contracts10.update({
    r'^HashMap::<.*>::get::<': c_map_get2, r'^HashMap::<.*>::insert$': c_map_insert2,
    r"^<Cow<'_, str> as Clone>::clone$": (lambda m, st, fr, fname, argv: msx.copy_val(sv(argv[0]))),
})
order = sorted(contracts10, key=lambda k: (0 if ('get::<' in k or 'Cow' in k or 'u8' in k or 'Rope' in k or 'usize> as Iterator>::map' in k or 'Vec<&Replacement>' in k) else 1))
contracts10 = {k: contracts10[k] for k in order}

m = Machine4(items, contracts10, loop_bound=64); m.smir_closures = SMIR
T = cstr(m, "abcdef")
def piece(a, b): return mkstr(s_arr(T), a, b - a)
evs = [('source', u32(0), cstr(m, "o.js"), NONE()),
       ('chunk', piece(0, 3), u32(1), u32(0), (u32(0), u32(1), u32(0), None)),
       ('name', u32(0), cstr(m, "n")),                                   # lazily announced
       ('chunk', piece(3, 6), u32(1), u32(3), (u32(0), u32(1), u32(3), u32(0)))]
child = ChildSpec('script', events=evs, events_final=evs, ret=(u32(1), u32(6)))
r1 = Agg([u32(1), u32(2), cstr(m, "X"), some(cstr(m, "r")), Enum(1, {1: Agg([])})])
r2 = Agg([u32(4), u32(5), cstr(m, "Y"), NONE(), Enum(1, {1: Agg([])})])
rs = Cell(Agg([child, PyVec([r1, r2]), Agg([PyVec([bv(0, 'usize'), bv(1, 'usize')])]), Agg([z3.BoolVal(True)])]))
opts = Cell(Agg([z3.BoolVal(True), z3.BoolVal(False)]))
cbs = [Cell(External('on_chunk')), Cell(External('on_source')), Cell(External('on_name'))]
it = m.find('replace_source::<impl at src/replace_source.rs:343:1: 343:50>::stream_chunks')
st = State()
m.push_frame(st, it, [Ref(rs), Ref(opts)] + [Ref(c) for c in cbs], None, None)
outs = m.run(st, until_depth=0)
for s2, rv in outs:
    if isinstance(rv, Panic): print('PANIC', rv.msg); continue
    names = {}
    for name_, args in s2.events:
        if name_ == 'on_name':
            names[z3.simplify(args[0].e).as_long()] = str_key(args[1]).decode(); print('  on_name', z3.simplify(args[0].e), str_key(args[1]).decode())
        elif name_ == 'on_chunk':
            ch, mp = args
            bs = bytes(z3.simplify(b).as_long() for b in r_bytes(ch.payload[1].f[0]))
            o = mp.f[2]
            if o.disc == 1:
                ol = o.payload[1].f[0]; ni = ol.f[3]
                nm = None if ni.disc == 0 else z3.simplify(ni.payload[1].f[0].e).as_long()
                print(f'  chunk {bs!r} -> src{z3.simplify(ol.f[0].e)}:{z3.simplify(ol.f[1].e)}:{z3.simplify(ol.f[2].e)} name_index={nm} ({names.get(nm) if nm is not None else None})')
            else: print(f'  chunk {bs!r} unmapped')

import sys, time
sys.path.insert(0, '/tmp/msx')
from msx3 import *
text = open('/tmp/mirprobe/mir.txt').read()
items = split_items(text)

def run(n, alphabet=b"a;{ \n"):
    m = Machine3(items, contracts3, loop_bound=4 * n + 8)
    arr = z3.Array('t', z3.BitVecSort(64), z3.BitVecSort(8))
    st = State()
    for i in range(n):
        c = z3.Select(arr, z3.BitVecVal(i, 64))
        st.pc.append(z3.Or([c == b for b in alphabet]))
    name = m.operand_const('"o.js"')
    src = Cell(Agg([mkstr(arr, 0, n), name]))
    opts = Cell(Agg([z3.BoolVal(True), z3.BoolVal(False)]))
    cbs = [Cell(External('on_chunk')), Cell(External('on_source')), Cell(External('on_name'))]
    it = m.find('original_source::<impl at src/original_source.rs:108:1: 108:37>::stream_chunks')
    m.push_frame(st, it, [Ref(src), Ref(opts)] + [Ref(c) for c in cbs], None, None)
    t0 = time.time()
    outs = m.run(st, until_depth=0)
    wall = time.time() - t0
    # oracle per path: reassembly + positions + identity mapping + end info
    bad = 0; t1 = time.time(); nchunks = 0
    for s2, rv in outs:
        if isinstance(rv, Panic): print('PANIC', rv.msg); bad += 1; continue
        pos = 0; line = 1; col = 0; conds = []
        for name_, args in s2.events:
            if name_ != 'on_chunk': continue
            nchunks += 1
            ch, mp = args
            assert ch.disc == 1
            s = ch.payload[1].f[0][1]
            # consecutive slice of the text
            conds.append(z3.BoolVal(s_off(s) == pos and s_len(s) >= 1))
            conds.append(mp.f[0].e == line); conds.append(mp.f[1].e == col)
            o = mp.f[2]
            if o.disc == 1:
                ol = o.payload[1].f[0]
                conds += [ol.f[0].e == 0, ol.f[1].e == line, ol.f[2].e == col]
            # advance tracker over bytes (symbolic newline only allowed at end: check no inner newline)
            for i in range(s_len(s) - 1): conds.append(s_byte(s, i) != 10)
            last_nl = s_byte(s, s_len(s) - 1) == 10
            pos += s_len(s)
            # fork-free: positions after chunk depend on last_nl symbolic -> path already decided it; ask solver
            sol = z3.Solver(); sol.add(*s2.pc)
            sol.add(last_nl); isnl = sol.check() == z3.sat
            sol2 = z3.Solver(); sol2.add(*s2.pc); sol2.add(z3.Not(last_nl)); notnl = sol2.check() == z3.sat
            assert isnl != notnl, 'path does not determine newline-ness'
            if isnl: line += 1; col = 0
            else: col += s_len(s)
        conds.append(z3.BoolVal(pos == n))
        conds += [rv.f[0].e == line, rv.f[1].e == col]
        sol = z3.Solver(); sol.add(*s2.pc); sol.add(z3.Not(z3.And(conds)))
        if sol.check() != z3.unsat:
            bad += 1; mod = sol.model()
            print('  VIOLATION witness text =', bytes(mod.eval(z3.Select(arr, z3.BitVecVal(i, 64)), model_completion=True).as_long() for i in range(n)))
    print(f'n={n}: paths={len(outs)} chunks={nchunks} explore={wall:.1f}s (queries={m.queries}, solver={m.solver_time:.1f}s) oracle={time.time()-t1:.1f}s bad={bad}')

for n in (2, 3, 4):
    run(n)

"""Spike part 2: ConcatSource::stream_chunks over scripted (contract) children and nested concat."""
import sys, time
sys.path.insert(0, '/tmp/msx')
import msx
from msx import *

class PyVec:
    def __init__(self, items): self.items = list(items)
class PyMap:      # string-id keyed finite map; keys are z3 ints or python ints
    def __init__(self): self.entries = []   # list of (key_expr, value)
class ClosureV(Agg):
    def __init__(self, tag, fields): super().__init__(fields); self.tag = tag
class External:   # top-level callback: records events
    def __init__(self, name): self.name = name
class RefCellV(Agg): pass

# --- extend clone
_old_clone = msx.clone_state
def clone_state2(st):
    memo = {}
    def cv(v):
        if isinstance(v, (IntV, Unit, External)) or z3.is_expr(v) or v is None or isinstance(v, (int, str, tuple)): return v
        if isinstance(v, ClosureV): return ClosureV(v.tag, [cv(x) for x in v.f])
        if isinstance(v, Agg): return Agg([cv(x) for x in v.f])
        if isinstance(v, Enum): return Enum(v.disc, {k: Agg([cv(x) for x in p.f]) for k, p in v.payload.items()})
        if isinstance(v, Ref): return Ref(cc(v.cell), v.path)
        if isinstance(v, PyVec): return PyVec([cv(x) for x in v.items])
        if isinstance(v, PyMap):
            m = PyMap(); m.entries = [(k, cv(x)) for k, x in v.entries]; return m
        if isinstance(v, ChildSpec): return v
        if isinstance(v, VecIter): return VecIter(cv(v.vec), v.pos)
        if isinstance(v, Panic): return v
        raise NotImplementedError('clone ' + repr(type(v)))
    def cc(c):
        if c.id in memo: return memo[c.id]
        n = Cell.__new__(Cell); n.id = c.id; memo[c.id] = n; n.v = cv(c.v); return n
    s2 = State()
    s2.pc = list(st.pc); s2.events = list(st.events); s2.steps = st.steps
    for fr in st.frames:
        if isinstance(fr, ScriptFrame):
            nf = ScriptFrame(fr.spec, [cv(x) for x in fr.cbs], fr.options)
            nf.idx = fr.idx
            nf.ret_place = (cc(fr.ret_place[0]), fr.ret_place[1]); nf.ret_bb = fr.ret_bb
        else:
            nf = Frame.__new__(Frame)
            nf.item, nf.body, nf.bb, nf.ip = fr.item, fr.body, fr.bb, fr.ip
            nf.locals = {i: cc(c) for i, c in fr.locals.items()}
            nf.ret_place = (cc(fr.ret_place[0]), fr.ret_place[1]) if fr.ret_place else None
            nf.ret_bb = fr.ret_bb
            nf.visits = dict(getattr(fr, 'visits', {}))
        s2.frames.append(nf)
    s2.extra = {k: cv(v) for k, v in getattr(st, 'extra', {}).items()}
    return s2
msx.clone_state = clone_state2

class ChildSpec:
    """kind 'script': events = list of ('source', idx, name_id) | ('name', idx, id) | ('chunk', has_text, line, col, orig|None); ret=(line,col)
       events_final used when options.final_source. kind 'concat': children list of ChildSpec"""
    def __init__(self, kind, **kw): self.kind = kind; self.__dict__.update(kw)

class VecIter:
    def __init__(self, vec, pos): self.vec, self.pos = vec, pos

class ScriptFrame:
    def __init__(self, spec, cbs, options): self.spec, self.cbs, self.options, self.idx = spec, cbs, options, 0

def rope_some(tag): return Enum(1, {1: Agg([('rope', tag)])})
def mk_mapping(line, col, orig):
    if orig is None: o = Enum(0, {})
    else:
        si, ol, oc, ni = orig
        o = Enum(1, {1: Agg([Agg([si, ol, oc, (Enum(0, {}) if ni is None else Enum(1, {1: Agg([ni])}))])])})
    return Agg([line, col, o])

class Machine2(Machine):
    def __init__(self, *a, **k):
        super().__init__(*a, **k)
        self.closure_items = {}
        for name, it in self.items.items():
            if it.kind == 'fn':
                m = re.match(r'^fn .*?\(_1: (?:&mut |&)?(\{closure@[^}]*\})', it.header)
                if m: self.closure_items[m.group(1)] = it

    def find(self, name):
        it = super().find(name)
        if it is not None: return it
        m = re.match(r'^<([A-Za-z]+)(?:<.*>)? as .*>::(\w+)$', name) or re.match(r'^([A-Za-z]+)(?:::<.*>)?::(\w+)$', name)
        if m:
            ty, meth = m.group(1), m.group(2)
            mod = re.sub(r'(?<!^)(?=[A-Z])', '_', ty).lower()
            cands = [k for k in self.items if k.startswith(mod + '::<impl') and k.endswith('::' + meth)]
            if len(cands) == 1: return self.items[cands[0]]
        return None

    def operand_const(self, s):
        m = re.match(r'^ZeroSized: (\{closure@[^}]*\})$', s.strip())
        if m: return ClosureV(m.group(1), [])
        return super().operand_const(s)

    def rvalue(self, st, fr, s, dest_ty=None):
        s = s.strip()
        m = re.match(r'^(\{closure@[^}]*\}) \{ (.*) \}$', s)
        if m:
            fields = split_top(m.group(2))
            ops = [f.split(': ', 1)[1] for f in fields]
            sm = getattr(self, 'smir_closures', {}).get((m.group(1), getattr(self, 'cur_dest', None)))
            if sm is not None and len(sm) != len(ops):
                ops = [o if o.startswith(('move ', 'copy ', 'const ')) else 'copy ' + o for o in sm]
            return ClosureV(m.group(1), [self.operand(st, fr, o) for o in ops])
        m = re.match(r'^(\{closure@[^}]*\})$', s)
        if m: return ClosureV(m.group(1), [])
        m = re.match(r'^(.*) as (.*) \(PointerCoercion\(Unsize, \w+\)\)$', s)
        if m: return self.operand(st, fr, m.group(1))
        return super().rvalue(st, fr, s, dest_ty)

    def step(self, st):
        fr = st.frames[-1]
        if isinstance(fr, ScriptFrame):
            final = fr.options
            evs = fr.spec.events_final if final else fr.spec.events
            if fr.idx < len(evs):
                ev = evs[fr.idx]; fr.idx += 1
                if ev[0] == 'chunk':
                    _, has_text, line, col, orig = ev
                    args = [rope_some(ev) if has_text else Enum(0, {}), mk_mapping(line, col, orig)]
                    self.invoke_closure(st, fr.cbs[0], args, None, None)
                elif ev[0] == 'source':
                    self.invoke_closure(st, fr.cbs[1], [ev[1], ('str', ev[2]), Enum(0, {})], None, None)
                elif ev[0] == 'name':
                    self.invoke_closure(st, fr.cbs[2], [ev[1], ('str', ev[2])], None, None)
                return None
            st.frames.pop()
            rv = Agg(list(fr.spec.ret))
            cell, path = fr.ret_place
            if not path: cell.v = rv
            else: set_path(cell, path, rv)
            self.jump(st, st.frames[-1], fr.ret_bb)
            return None
        return super().step(st)

    def invoke_closure(self, st, cref, args, ret_place, retbb):
        target = get_path(cref.cell.v, list(cref.path)) if isinstance(cref, Ref) else cref
        while isinstance(target, Ref):
            cref = target; target = get_path(cref.cell.v, list(cref.path))
        if isinstance(target, External):
            st.events.append((target.name, args))
            if ret_place is not None:
                cell, path = ret_place
                if not path: cell.v = UNIT
                else: set_path(cell, path, UNIT)
                self.jump(st, st.frames[-1], retbb)
            return
        assert isinstance(target, ClosureV), target
        it = self.closure_items[target.tag]
        body = parse_body(it)
        nf = Frame(it, body)
        nf.locals[1].v = cref if body.locals[1].startswith('&') else target
        for i, a in enumerate(args): nf.locals[i + 2].v = a
        if ret_place is None:
            # called from a ScriptFrame: return goes nowhere
            nf.ret_place, nf.ret_bb = None, None
        else:
            nf.ret_place, nf.ret_bb = ret_place, retbb
        st.frames.append(nf)

    # override return handling for frames without ret_place (closure called from script)
    def call(self, st, fr, dest, fname, argv, retbb):
        if 'as FnMut<' in fname and fname.endswith('::call_mut'):
            tup = argv[1]
            self.invoke_closure(st, argv[0], list(tup.f), self.resolve(st, fr, dest), retbb)
            return None
        if fname == '<Arc<dyn source::Source> as StreamChunks>::stream_chunks':
            child = get_path(argv[0].cell.v, list(argv[0].path))
            if isinstance(child, ChildSpec) and child.kind == 'script':
                opts = get_path(argv[1].cell.v, list(argv[1].path))
                final = z3.is_true(z3.simplify(opts.f[1]))
                sf = ScriptFrame(child, argv[2:5], final)
                sf.ret_place, sf.ret_bb = self.resolve(st, fr, dest), retbb
                st.frames.append(sf)
                return None
            if isinstance(child, ChildSpec) and child.kind == 'concat':
                it = self.find('concat_source::<impl at src/concat_source.rs:185:1: 185:35>::stream_chunks')
                cs = Cell(Agg([PyVec(child.children)]))
                self.push_frame(st, it, [Ref(cs)] + argv[1:5], self.resolve(st, fr, dest), retbb)
                return None
        try:
            return super().call(st, fr, dest, fname, argv, retbb)
        except CallClosure as cc:
            self.invoke_closure(st, cc.clo, cc.args, self.resolve(st, fr, dest), retbb)
            return None

# patch 'return' for frames with no ret_place that are not the bottom frame
_orig_step = Machine.step
def step_patch(self, st):
    fr = st.frames[-1]
    if not isinstance(fr, ScriptFrame):
        stmts = fr.body.blocks[fr.bb]
        if stmts[fr.ip] == 'return;' and fr.ret_place is None and len(st.frames) > 1:
            st.frames.pop(); st.retval = fr.locals[0].v
            return None
    return _orig_step(self, st)
Machine.step = step_patch

# ------------------------------------------------------------------ contracts
def deref(r): return get_path(r.cell.v, list(r.path))
def c_identity(m, st, fr, fname, argv): return argv[0]
def c_vec_len(m, st, fr, fname, argv): return bv(len(deref(argv[0]).items), 'usize')
def c_vec_default(m, st, fr, fname, argv): return PyVec([])
def c_vec_clear(m, st, fr, fname, argv): deref(argv[0]).items = []; return UNIT
def c_vec_index(m, st, fr, fname, argv):
    r, i = argv; i = z3.simplify(i.e); assert z3.is_bv_value(i)
    v = deref(r)
    if i.as_long() >= len(v.items): raise Panic('index out of bounds')
    return Ref(r.cell, r.path + (('vec', i.as_long()),))
def c_slice_get(m, st, fr, fname, argv):
    r, i = argv
    v = deref(r); e = z3.simplify(i.e)
    n = len(v.items)
    if z3.is_bv_value(e):
        k = e.as_long()
        return Enum(1, {1: Agg([Ref(r.cell, r.path + (('vec', k),))])}) if k < n else Enum(0, {})
    outs = []
    for k in list(range(n)) + [None]:
        cond = (e == k) if k is not None else z3.UGE(e, z3.BitVecVal(n, e.size()))
        if m.feasible(st, cond):
            s2 = msx.clone_state(st); s2.pc.append(cond)
            # re-resolve ref in cloned state: same cell id -> find through frames; simplest: rebuild from top frame arg
            outs.append((s2, k))
    res = []
    for s2, k in outs:
        f2 = s2.frames[-1]
        # argv[0] was read via operand -> re-evaluate is complex; use cell id lookup
        cell2 = find_cell(s2, r.cell.id)
        res.append((s2, Enum(1, {1: Agg([Ref(cell2, r.path + (('vec', k),))])}) if k is not None else Enum(0, {})))
    return res
def find_cell(st, cid):
    seen = set()
    def walk(v):
        if isinstance(v, Ref):
            if v.cell.id == cid: return v.cell
            if id(v.cell) in seen: return None
            seen.add(id(v.cell)); return walk(v.cell.v)
        if isinstance(v, Agg):
            for x in v.f:
                r = walk(x)
                if r: return r
        if isinstance(v, Enum):
            for p in v.payload.values():
                r = walk(p)
                if r: return r
        if isinstance(v, PyVec):
            for x in v.items:
                r = walk(x)
                if r: return r
        return None
    for fr in st.frames:
        if isinstance(fr, ScriptFrame):
            for c in fr.cbs:
                r = walk(c)
                if r: return r
            continue
        for c in fr.locals.values():
            if c.id == cid: return c
            r = walk(c.v)
            if r: return r
    raise KeyError(cid)
def c_resize_with(m, st, fr, fname, argv):
    r, n = argv[0], z3.simplify(argv[1].e)
    assert z3.is_bv_value(n), 'symbolic resize'
    v = deref(r)
    while len(v.items) < n.as_long(): v.items.append(bv(0, 'u32'))
    return UNIT
def c_map_default(m, st, fr, fname, argv): return PyMap()
def c_map_get(m, st, fr, fname, argv):
    mp, key = deref(argv[0]), argv[1]
    key = deref(key) if isinstance(key, Ref) else key
    for k, val in mp.entries:
        if k == key: 
            return Enum(1, {1: Agg([Ref(Cell(val))])})
    return Enum(0, {})
def c_map_len(m, st, fr, fname, argv): return bv(len(deref(argv[0]).entries), 'usize')
def c_map_insert(m, st, fr, fname, argv):
    mp = deref(argv[0]); mp.entries.append((argv[1], argv[2])); return Enum(0, {})
def c_opt_copied(m, st, fr, fname, argv):
    o = argv[0]
    if o.disc == 0: return Enum(0, {})
    return Enum(1, {1: Agg([deref(o.payload[1].f[0])])})
def c_opt_as_ref(m, st, fr, fname, argv):
    r = argv[0]; o = deref(r)
    if isinstance(o.disc, int):
        if o.disc == 0: return Enum(0, {})
        return Enum(1, {1: Agg([Ref(r.cell, r.path + (('dc', 'Some'), 0))])})
    raise NotImplementedError('symbolic option as_ref')
def c_opt_is_none(m, st, fr, fname, argv):
    o = deref(argv[0]); return z3.BoolVal(o.disc == 0)
def c_opt_and_then(m, st, fr, fname, argv):
    o, clo = argv
    if o.disc == 0: return Enum(0, {})
    # call closure with payload; need frame push with return into dest: emulate via invoke & special handling
    raise CallClosure(clo, [o.payload[1].f[0]])
def c_opt_unwrap(m, st, fr, fname, argv):
    o = argv[0]
    if o.disc == 0: raise Panic('unwrap on None')
    return o.payload[1].f[0]
class CallClosure(Exception):
    def __init__(self, clo, args): self.clo, self.args = clo, args

def c_refcell_new(m, st, fr, fname, argv): return Agg([argv[0]])
def c_refcell_borrow(m, st, fr, fname, argv):
    r = argv[0]; return Ref(r.cell, r.path + (0,))
def c_cow_clone(m, st, fr, fname, argv): return deref(argv[0])
def c_into_iter_vec(m, st, fr, fname, argv): return VecIter(argv[0], 0)
def c_iter_next(m, st, fr, fname, argv):
    it = deref(argv[0]); v = deref(it.vec)
    if it.pos < len(v.items):
        k = it.pos; it.pos += 1
        return Enum(1, {1: Agg([Ref(it.vec.cell, it.vec.path + (('vec', k),))])})
    return Enum(0, {})

# extend path ops for ('vec', k)
_old_get = msx.get_path
def get_path2(v, path):
    for p in path:
        if isinstance(p, tuple) and p[0] == 'vec': v = v.items[p[1]]
        elif isinstance(p, tuple) and p[0] == 'dc':
            vi = {'None': 0, 'Some': 1, 'Occupied': 0, 'Vacant': 1, 'Ok': 0, 'Err': 1, 'Borrowed': 0, 'Owned': 1, 'Raw': 0, 'Lines': 1, 'Light': 0, 'Full': 1}[p[1]]; v = v.payload[vi]
        else: v = _old_get(v, [p])
    return v
msx.get_path = get_path2
get_path = get_path2
def set_path2(cell, path, val):
    v = get_path2(cell.v, path[:-1]); p = path[-1]
    if isinstance(p, tuple) and p[0] == 'vec': v.items[p[1]] = val
    else: v.f[p] = val
msx.set_path = set_path2

contracts = {
    r'^Vec::<.*>::len$': c_vec_len,
    r'^<Vec<.*> as Default>::default$': c_vec_default,
    r'^Vec::<.*>::clear$': c_vec_clear,
    r'^<Vec<.*> as Index<usize>>::index$': c_vec_index,
    r'^<Vec<.*> as IndexMut<usize>>::index_mut$': c_vec_index,
    r'^<Vec<.*> as Deref(Mut)?>::deref(_mut)?$': c_identity,
    r'slice::<impl \[.*\]>::get(_mut)?::<usize>$': c_slice_get,
    r'^Vec::<.*>::resize_with': c_resize_with,
    r'^<HashMap<.*> as Default>::default$': c_map_default,
    r'^HashMap::<.*>::get::<': c_map_get,
    r'^HashMap::<.*>::len$': c_map_len,
    r'^HashMap::<.*>::insert$': c_map_insert,
    r'^std::option::Option::<&u32>::copied$': c_opt_copied,
    r'^std::option::Option::<.*>::as_ref$': c_opt_as_ref,
    r'^std::option::Option::<.*>::is_none$': c_opt_is_none,
    r'^std::option::Option::<.*>::and_then::<': c_opt_and_then,
    r'^std::option::Option::<.*>::unwrap$': c_opt_unwrap,
    r'^RefCell::<.*>::new$': c_refcell_new,
    r'^RefCell::<.*>::borrow(_mut)?$': c_refcell_borrow,
    r'^<std::cell::Ref(Mut)?<.*> as Deref(Mut)?>::deref(_mut)?$': (lambda m, st, fr, fname, argv: deref(argv[0])),
    r'^<Cow<.*> as Clone>::clone$': c_cow_clone,
    r'^<&Vec<.*> as IntoIterator>::into_iter$': c_into_iter_vec,
    r'^<std::slice::Iter<.*Arc<dyn.*> as Iterator>::next$': c_iter_next,
}

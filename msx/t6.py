import sys, time
sys.path.insert(0, '/tmp/msx')
from msx5 import *
text = open('/tmp/mirprobe/mir.txt').read()
items = split_items(text)
m = Machine5(items, contracts5, loop_bound=32)
F_MAP = m.find('cached_source::<impl at src/cached_source.rs:75:1: 75:77>::map')
F_STREAM = m.find('cached_source::<impl at src/cached_source.rs:107:1: 108:22>::stream_chunks')

def explore(progs, max_switches):
    m.max_switches = max_switches
    st = State()
    dm = Cell(DashMapV())
    cs = Cell(Agg([('inner',), ('hashcell',), Ref(dm)]))
    opts = Cell(Agg([z3.BoolVal(True), z3.BoolVal(False)]))
    st.shared = [Ref(cs), Ref(opts), Ref(dm)]
    st.threads = [Thread(0, progs[0]), Thread(1, progs[1])]
    st.cur, st.switches, st.decided, st.sched = 0, 0, False, [0]
    st.frames = st.threads[0].frames
    work, results, nstates = [st], [], 0
    def start_op(s, t):
        op = t.prog[t.opi]; t.opi += 1
        csr, optr = s.shared[0], s.shared[1]
        if op == 'map': m.push_frame(s, F_MAP, [csr, optr], None, None)
        elif op == 'stream':
            cbs = [Ref(Cell(External('c'))), Ref(Cell(External('s'))), Ref(Cell(External('n')))]
            m.push_frame(s, F_STREAM, [csr, optr] + cbs, None, None)
        elif op == 'use':
            for b in t.borrows:
                if getattr(b.cell, 'freed', False): raise Violation(f'thread {t.tid} dereferences a cached SourceMap that was replaced and dropped (use after free)')
            return False
        return True
    while work:
        s = work.pop(); nstates += 1
        try:
            while True:
                t = s.threads[s.cur]; s.frames = t.frames
                if not t.frames:
                    if t.opi < len(t.prog):
                        other = s.threads[1 - s.cur]
                        if not s.decided and s.switches < m.max_switches and (other.frames or other.opi < len(other.prog)):
                            s2 = msx.clone_state(s); s2.cur = 1 - s.cur; s2.switches += 1; s2.decided = False; s2.sched.append(s2.cur)
                            work.append(s2)
                        s.decided = False
                        s.frames = t.frames
                        if not start_op(s, t): continue
                        continue
                    other = s.threads[1 - s.cur]
                    if other.frames or other.opi < len(other.prog):
                        s.cur = 1 - s.cur; s.sched.append(s.cur); s.decided = False; continue
                    results.append(('ok', s.sched)); break
                try:
                    forks = m.step(s)
                except Blocked:
                    other = s.threads[1 - s.cur]
                    if not (other.frames or other.opi < len(other.prog)): raise Violation('deadlock')
                    s.cur = 1 - s.cur; s.sched.append(s.cur); s.decided = False; continue
                if forks:
                    work.extend(forks[1:]); s = forks[0]
        except Violation as v:
            results.append(('VIOLATION', str(v), s.sched, [t.log for t in s.threads]))
    return results, nstates

for progs in ([['map'], ['stream', 'stream', 'use']], [['stream'], ['stream', 'use']], [['map'], ['map']]):
    t0 = time.time()
    res, n = explore(progs, 6)
    viol = [r for r in res if r[0] == 'VIOLATION']
    print(f'programs {progs}: schedules explored={len(res)} states={n} violations={len(viol)} in {time.time()-t0:.2f}s')
    seen = set()
    for v in viol:
        if v[1] in seen: continue
        seen.add(v[1]); print('   ', v[1], '| schedule (thread ids at switches):', v[2], '|', v[3])

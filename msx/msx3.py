"""Spike part 3: text model; OriginalSource::stream_chunks on symbolic text."""
import sys, time
sys.path.insert(0, '/tmp/msx')
import msx, msx2
from msx2 import *

msx.INT_TYPES['char'] = 32

class StrV:
    def __init__(self, arr, off, ln): self.arr, self.off, self.len = arr, off, ln
    def byte(self, i): return z3.Select(self.arr, z3.BitVecVal(self.off + i, 64))
class RopeV:
    def __init__(self, s): self.s = s

# clone support: StrV/RopeV are immutable -> share
_prev_clone = msx.clone_state
def patch_clone():
    src = msx2.clone_state2
    def clone3(st):
        return src(st)
    return clone3
# monkeypatch cv via wrapping NotImplemented path: simplest is to make StrV/RopeV subclasses of tuple-like immutables
class _Imm(tuple): pass

def mkstr(arr, off, ln): return ('strv', arr, off, ln)      # tuples are treated as immutable by clone (isinstance tuple)
def s_arr(s): return s[1]
def s_off(s): return s[2]
def s_len(s): return s[3]
def s_byte(s, i): return z3.Select(s[1], z3.BitVecVal(s[2] + i, 64))

STD_ENUM = {'Borrowed': 0, 'Owned': 1, 'Some': 1, 'None': 0, 'Ok': 0, 'Err': 1, 'Light': 0, 'Full': 1}

class Machine3(Machine2):
    def operand_const(self, s):
        s = s.strip()
        m = re.match(r"^'(\\?.)'$", s)
        if m:
            ch = bytes(m.group(1), 'utf-8').decode('unicode_escape')
            return IntV(z3.BitVecVal(ord(ch), 32), 'char')
        m = re.match(r'^"(.*)"$', s)
        if m:
            raw = bytes(m.group(1), 'utf-8').decode('unicode_escape').encode('latin1')
            arr = z3.K(z3.BitVecSort(64), z3.BitVecVal(0, 8))
            for i, b in enumerate(raw): arr = z3.Store(arr, z3.BitVecVal(i, 64), z3.BitVecVal(b, 8))
            return mkstr(arr, 0, len(raw))
        if s.startswith('ZeroSized: PhantomData'): return UNIT
        return super().operand_const(s)

    def rvalue(self, st, fr, s, dest_ty=None):
        s = s.strip()
        m = re.match(r'^(?:[A-Za-z_][A-Za-z_0-9]*::)*(?:<[^()]*>::)?([A-Z][A-Za-z]*)(?:::<[^()]*>)?::([A-Z][A-Za-z]*)\((.*)\)$', s)
        if m and m.group(2) in STD_ENUM and m.group(1) in ('Cow', 'Repr', 'Result'):
            return Enum(STD_ENUM[m.group(2)], {STD_ENUM[m.group(2)]: Agg([self.operand(st, fr, x) for x in split_top(m.group(3))])})
        return super().rvalue(st, fr, s, dest_ty)

    def find(self, name):
        it = super().find(name)
        if it is not None: return it
        m = re.match(r'^<(.*) as (.*)>::(\w+)$', name)
        if m:
            ty, meth = m.group(1), m.group(3)
            base = re.sub(r"<.*>", '', ty).replace('&', '').replace("'_", '').strip()
            cands = []
            for k, it2 in self.items.items():
                if it2.kind == 'fn' and k.endswith('::' + meth) and '<impl at' in k:
                    mm = re.match(r'^fn .*?\(_1: (?:&mut |&)*([A-Za-z_][A-Za-z_0-9:]*)', it2.header)
                    if mm and mm.group(1).split('::')[-1] == base.split('::')[-1]: cands.append(it2)
            if len(cands) == 1: return cands[0]
        return None

    def call(self, st, fr, dest, fname, argv, retbb):
        m = re.match(r"^<(S|&str|Rope<'_>) as SourceText<'_>>::(\w+)$", fname)
        if m:
            a0 = argv[0]
            v = deref(a0) if isinstance(a0, Ref) else a0
            isstr = isinstance(v, tuple) and v[0] == 'strv'
            line = '1324' if isstr else '1279'
            cands = [it for k, it in self.items.items() if k.startswith(f'helpers::<impl at src/helpers.rs:{line}:') and k.endswith('::' + m.group(2))]
            assert len(cands) == 1, (fname, len(cands))
            self.push_frame(st, cands[0], argv, self.resolve(st, fr, dest), retbb)
            return None
        m = re.match(r'^(\w+)::<.*>$', fname)      # generic free fn e.g. split_into_potential_tokens::<'_, &str>
        if m and m.group(1) in self.items and self.items[m.group(1)].kind == 'fn' and fname.count('::<') == 1:
            self.push_frame(st, self.find(m.group(1)), argv, self.resolve(st, fr, dest), retbb)
            return None
        return super().call(st, fr, dest, fname, argv, retbb)

def sv(x): return deref(x) if isinstance(x, Ref) else x
def c_str_len(m, st, fr, fname, argv): return bv(s_len(sv(argv[0])), 'usize')
def c_str_as_bytes(m, st, fr, fname, argv): return argv[0]
def c_bytes_get(m, st, fr, fname, argv):
    s, i = sv(argv[0]), z3.simplify(argv[1].e)
    assert z3.is_bv_value(i), 'symbolic byte index'
    k = i.as_long()
    if k < s_len(s): return Enum(1, {1: Agg([Ref(Cell(IntV(s_byte(s, k), 'u8')))])})
    return Enum(0, {})
def c_char_from_u8(m, st, fr, fname, argv): return IntV(z3.ZeroExt(24, argv[0].e), 'char')
def c_str_get_range(m, st, fr, fname, argv):
    s, r = sv(argv[0]), argv[1]
    a, b = z3.simplify(r.f[0].e), z3.simplify(r.f[1].e)
    assert z3.is_bv_value(a) and z3.is_bv_value(b)
    a, b = a.as_long(), b.as_long()
    if a <= b <= s_len(s): return Enum(1, {1: Agg([mkstr(s_arr(s), s_off(s) + a, b - a)])})
    return Enum(0, {})
def c_unwrap_or_default_str(m, st, fr, fname, argv):
    o = argv[0]
    return o.payload[1].f[0] if o.disc == 1 else mkstr(z3.K(z3.BitVecSort(64), z3.BitVecVal(0, 8)), 0, 0)
def c_str_ends_with_str(m, st, fr, fname, argv):
    s, p = sv(argv[0]), sv(argv[1])
    if s_len(p) > s_len(s): return z3.BoolVal(False)
    return z3.And([s_byte(s, s_len(s) - s_len(p) + i) == s_byte(p, i) for i in range(s_len(p))]) if s_len(p) else z3.BoolVal(True)
def c_str_ends_with_char(m, st, fr, fname, argv):
    s, c = sv(argv[0]), argv[1]
    if s_len(s) == 0: return z3.BoolVal(False)
    return z3.ZeroExt(24, s_byte(s, s_len(s) - 1)) == c.e
def c_rope_from(m, st, fr, fname, argv): return ('rope', sv(argv[0]))
def c_then_some(m, st, fr, fname, argv):
    b = z3.simplify(argv[0]); assert z3.is_true(b) or z3.is_false(b)
    return Enum(1, {1: Agg([argv[1]])}) if z3.is_true(b) else Enum(0, {})

contracts3 = dict(contracts)
contracts3.update({
    r'core::str::<impl str>::len$': c_str_len,
    r'core::str::<impl str>::as_bytes$': c_str_as_bytes,
    r'core::slice::<impl \[u8\]>::get::<usize>$': c_bytes_get,
    r'^std::option::Option::<&u8>::copied$': c_opt_copied,
    r'^<char as From<u8>>::from$': c_char_from_u8,
    r'core::str::<impl str>::get::<std::ops::Range<usize>>$': c_str_get_range,
    r'^std::option::Option::<&str>::unwrap_or_default$': c_unwrap_or_default_str,
    r'core::str::<impl str>::ends_with::<&str>$': c_str_ends_with_str,
    r'core::str::<impl str>::ends_with::<char>$': c_str_ends_with_char,
    r"^<Rope<'_> as From<&(std::string::String|str)>>::from$": c_rope_from,
    r'^<std::string::String as Deref>::deref$': (lambda m, st, fr, fname, argv: sv(argv[0])),
    r'^std::string::String::as_str$': (lambda m, st, fr, fname, argv: sv(argv[0])),
    r"^<PotentialTokens<'_, .*> as IntoIterator>::into_iter$": c_identity,
    r'bool::<impl bool>::then_some::<': c_then_some,
})
# put the u8-specific slice get before the generic slice get
contracts3 = {k: contracts3[k] for k in sorted(contracts3, key=lambda k: 0 if 'u8' in k else 1)}

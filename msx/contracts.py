"""Contracts for std / third-party callees (the trusted base of engine S). Every contract is a few definitional
lines; crate-local code is never modelled here - it is interpreted from its MIR."""
import re
import z3
from .mir import Inconclusive, INT_TYPES, SIGNED, split_top
from .values import *
from .machine import Panic, PUSHED, Native, CallThen, PathDone

REG = []          # (priority, regex, fn)


def contract(pat, prio=5):
    def deco(fn):
        REG.append((prio, pat, fn)); return fn
    return deco


def table():
    return [(p, f) for _, p, f in sorted(REG, key=lambda t: t[0])]


# ---------------------------------------------------------------------------------------------- helpers
def disc_of(m, st, o):
    """concrete discriminant of an Enum (forks when symbolic)"""
    o = sv(o)
    if not isinstance(o, Enum): raise Inconclusive('expected enum, got %r' % (o,))
    if isinstance(o.disc, int): return o.disc
    c = conc_int(IntV(o.disc, 'isize'))
    if c is not None: return c
    for k in sorted(o.payload.keys() | {0}):
        if m.branch(st, o.disc == z3.BitVecVal(k, o.disc.size())): return k
    raise PathDone()


def payload0(o, k=1): return o.payload[k].f[0]


def elem_ref(r, k): return Ref(r.cell, r.path + (k,))


def seq_of(x):
    """(container value, ref or None) for Vec / slice / array operands given by value or by reference"""
    r = None
    while isinstance(x, Ref):
        r = x; x = deref(x)
    return x, r


def as_str(x):
    x = sv(x)
    if isinstance(x, Enum) and x.ty == 'Cow': x = sv(payload0(x, x.disc))
    if isinstance(x, RopeV): x = x.flat()
    if isinstance(x, Agg) and x.ty == 'Vec':     # String built from bytes
        return StrV(tuple(b.e for b in x.f))
    if not isinstance(x, StrV): raise Inconclusive('expected string, got %r' % (x,))
    return x


def str_eq(a, b):
    if a.len != b.len: return False
    return b_and(*[byte_eq(a.byte(i), b.byte(i)) for i in range(a.len)])


def call_then(m, st, callee, args, then, saved=None):
    st.frames.append(CallThen(callee, args, then, saved, m.cur_ret))
    return PUSHED


def bool_val(m, st, b):
    return b if isinstance(b, bool) else m.branch(st, b)


# ---------------------------------------------------------------------------------------------- identity-like
@contract(r'^<.* as Deref(Mut)?>::deref(_mut)?$', 8)
def c_deref(m, st, f, a):
    x = deref(a[0])
    if isinstance(x, Ref): return x           # Arc / Box / Rc / guards modelled as references
    return a[0]                               # Vec -> slice, String -> str, Cow handled below


@contract(r'^<Cow<.*> as Deref>::deref$', 3)
def c_cow_deref(m, st, f, a):
    c = sv(a[0]); k = disc_of(m, st, c)
    x = payload0(c, k)
    return x


@contract(r'^<.* as (AsRef|Borrow|AsMut|BorrowMut)<.*>>::(as_ref|borrow|as_mut|borrow_mut)$', 8)
def c_as_ref(m, st, f, a):
    x = deref(a[0])
    if isinstance(x, Ref): return x
    if isinstance(x, Enum) and x.ty == 'Cow': return payload0(x, disc_of(m, st, x))
    return a[0]


@contract(r'^<.* as (Into|From)<.*>>::(into|from)$', 9)
def c_into(m, st, f, a):
    mm = re.match(r'^<(.*) as Into<(.*)>>::into$', f) or re.match(r'^<(.*) as From<(.*)>>::from$', f)
    src, dst = (mm.group(1), mm.group(2)) if 'Into<' in f else (mm.group(2), mm.group(1))
    x = a[0]
    if src in INT_TYPES and dst in INT_TYPES: return cast(x, dst)
    if dst.startswith('Cow<'):
        return Enum('Cow', 1 if 'String' in src else 0, {(1 if 'String' in src else 0): Agg([as_str(x)])})
    if dst in ('std::string::String', 'String') or dst.startswith('Arc<str'): return as_str(x)
    if dst.startswith('Arc<[') or dst.startswith('Box<') or dst.startswith('Arc<') or dst.startswith('Rc<'):
        return Ref(Cell(x))
    if src == dst or dst == 'T': return x
    return NotImplemented


@contract(r'^<.* as TryInto<.*>>::try_into$', 9)
def c_try_into(m, st, f, a):
    """std blanket impl: <T as TryInto<U>>::try_into(x) = <U as TryFrom<T>>::try_from(x)"""
    mm = re.match(r'^<(.*) as TryInto<(.*)>>::try_into$', f)
    m.call_fn(st, '<%s as TryFrom<%s>>::try_from' % (mm.group(2), mm.group(1)), a, m.cur_ret)
    return PUSHED


@contract(r'^(std::)?(mem|intrinsics)::(transmute|transmute_unchecked)::<')
def c_transmute(m, st, f, a): return a[0]


@contract(r'^must_use::<')
def c_must_use(m, st, f, a): return a[0]


@contract(r'^(std::mem|core::mem)::take::<')
def c_mem_take(m, st, f, a):
    old = deref(a[0])
    if isinstance(old, Agg) and old.ty == 'Vec': new = vec([])
    elif isinstance(old, StrV): new = mkstr('')
    elif isinstance(old, Enum) and old.ty == 'Option': new = none()
    else: raise Inconclusive('mem::take of %r' % (old,))
    store(a[0], new)
    return old


@contract(r'^(std::mem|core::mem)::(replace|swap)::<')
def c_mem_replace(m, st, f, a):
    if '::swap' in f:
        x, y = deref(a[0]), deref(a[1]); store(a[0], y); store(a[1], x); return UNIT
    old = deref(a[0]); store(a[0], a[1]); return old


@contract(r'^(std::mem|core::mem)::(drop|forget)::<')
def c_mem_drop(m, st, f, a):
    h = m.hooks.get('drop')
    if h and 'drop' in f: h(m, st, a[0])
    return UNIT


# ---------------------------------------------------------------------------------------------- Box / Arc / Rc
@contract(r'^(Box|Arc|Rc|std::sync::Arc|std::rc::Rc|std::boxed::Box)::<.*>::new$')
def c_box_new(m, st, f, a): return Ref(Cell(a[0], tag='heap'))


@contract(r'^<(Arc|Rc|std::sync::Arc)<.*> as Clone>::clone$', 3)
def c_arc_clone(m, st, f, a): return deref(a[0])


@contract(r'^<(Arc|Rc|Box)<.*> as PartialEq>::(eq|ne)$', 3)
def c_arc_eq(m, st, f, a):
    """Arc<T> == Arc<T> is T == T"""
    x, y = sv(a[0]), sv(a[1])
    neg = f.endswith('::ne')
    if isinstance(x, StrV) or isinstance(y, StrV):
        r = str_eq(as_str(x), as_str(y))
        return b_not(r) if neg else r
    if isinstance(x, Agg) and (x.ty == 'Vec' or x.ty is None):
        return seq_eq(m, st, x, y, neg)
    rt = m.runtime_type(x)
    if rt and m.idx.impls.get((rt, 'PartialEq', 'eq')):
        inner = lambda r: r if not (isinstance(r, Ref) and isinstance(deref(r), Ref)) else inner(deref(r))
        if neg: return call_then(m, st, FnItem('<%s as PartialEq>::eq' % rt), [inner(a[0]), inner(a[1])], lambda m, st, s, r: b_not(r))
        m.call_fn(st, '<%s as PartialEq>::eq' % rt, [inner(a[0]), inner(a[1])], m.cur_ret)
        return PUSHED
    r = _eq_vals(m, st, x, y)
    return b_not(r) if neg else r


class SeqEq(Native):
    """element-wise equality of two sequences whose elements have their own PartialEq (crate impls are called)"""

    def __init__(self, xs, ys, neg, ret):
        self.xs, self.ys, self.neg, self.ret, self.i = xs, ys, neg, ret, 0

    def step(self, m, st):
        if self.i >= len(self.xs):
            m.do_return(st, not self.neg); return
        x, y = self.xs[self.i], self.ys[self.i]
        self.i += 1
        rt = m.runtime_type(x)
        if rt and m.idx.impls.get((rt, 'PartialEq', 'eq')):
            inner = lambda r: r if not (isinstance(r, Ref) and isinstance(deref(r), Ref)) else inner(deref(r))
            ry = m.runtime_type(y)
            if ry != rt:
                m.do_return(st, bool(self.neg)); return
            m.call_fn(st, '<%s as PartialEq>::eq' % rt, [inner(x), inner(y)], ('native',))
        else:
            self.recv(m, st, _eq_vals(m, st, x, y))

    def recv(self, m, st, v):
        if not bool_val(m, st, v):
            st.frames.pop(); m.deliver(st, self.ret, True if self.neg else False)


def seq_eq(m, st, x, y, neg=False):
    if len(x.f) != len(y.f): return True if neg else False
    xs = [e if isinstance(e, Ref) else Ref(Cell(e)) for e in x.f]; ys = [e if isinstance(e, Ref) else Ref(Cell(e)) for e in y.f]
    st.frames.append(SeqEq(xs, ys, neg, m.cur_ret))
    return PUSHED


@contract(r'^<(&?Vec<.*>|&?\[.*\]) as PartialEq(<.*>)?>::(eq|ne)$', 4)
def c_vec_eq(m, st, f, a):
    x, y = sv(a[0]), sv(a[1])
    if isinstance(x, StrV) or isinstance(y, StrV): return NotImplemented
    return seq_eq(m, st, x, y, f.endswith('::ne'))


# ---------------------------------------------------------------------------------------------- Option / Result
@contract(r'^(std::option::|core::option::)?Option::<.*>::(is_some|is_none)$')
def c_opt_is(m, st, f, a):
    o = sv(a[0])
    want = 1 if f.endswith('is_some') else 0
    if isinstance(o.disc, int): return o.disc == want
    return o.disc == z3.BitVecVal(want, o.disc.size())


@contract(r'^(std::result::|core::result::)?Result::<.*>::(is_ok|is_err)$')
def c_res_is(m, st, f, a):
    o = sv(a[0]); want = 0 if f.endswith('is_ok') else 1
    return disc_of(m, st, o) == want


@contract(r'^(std::option::|core::option::)?Option::<.*>::(as_ref|as_mut|as_deref|as_deref_mut)$')
def c_opt_as_ref(m, st, f, a):
    r = a[0]; o = deref(r)
    k = disc_of(m, st, o)
    if k == 0: return none()
    inner = Ref(r.cell, r.path + (('dc', 1), 0))
    if 'deref' in f:
        x = deref(inner)
        if isinstance(x, Ref): return some(x)
    return some(inner)


@contract(r'^(std::option::|core::option::)?Option::<&(mut )?.*>::(copied|cloned)$')
def c_opt_copied(m, st, f, a):
    o = a[0]; k = disc_of(m, st, o)
    if k == 0: return none()
    return some(copy_val(deref(payload0(o))))


@contract(r'^(std::option::|core::option::)?Option::<.*>::(unwrap|expect)$')
def c_opt_unwrap(m, st, f, a):
    o = a[0]
    if disc_of(m, st, o) == 0: raise Panic('called `Option::unwrap()` on a `None` value')
    return payload0(o)


@contract(r'^(std::option::|core::option::)?Option::<.*>::unwrap_unchecked$')
def c_opt_unwrap_unchecked(m, st, f, a):
    o = a[0]
    if disc_of(m, st, o) == 0: raise Panic('UB: unwrap_unchecked on None')
    return payload0(o)


@contract(r'^(std::option::|core::option::)?Option::<.*>::unwrap_or$')
def c_opt_unwrap_or(m, st, f, a):
    o = a[0]
    return a[1] if disc_of(m, st, o) == 0 else payload0(o)


@contract(r'^(std::option::|core::option::)?Option::<.*>::unwrap_or_default$')
def c_opt_unwrap_or_default(m, st, f, a):
    o = a[0]
    if disc_of(m, st, o) == 1: return payload0(o)
    mm = re.search(r'Option::<(.*)>::unwrap_or_default$', f)
    t = mm.group(1)
    if t in ('&str', 'std::string::String') or t.startswith('Cow<'): return mkstr('')
    if t in INT_TYPES: return IntV(0, t)
    if t.startswith('Vec<'): return vec([])
    if t == 'bool': return False
    raise Inconclusive('unwrap_or_default of ' + t)


@contract(r'^(std::result::|core::result::)?Result::<.*>::unwrap_or_default$')
def c_res_unwrap_or_default(m, st, f, a):
    r = a[0]
    if disc_of(m, st, r) == 0: return payload0(r, 0)
    t = split_top(re.search(r'Result::<(.*)>::unwrap_or_default$', f).group(1))[0]
    d = default_of(m, t)
    if d is None: raise Inconclusive('unwrap_or_default of ' + t)
    return d


@contract(r'^(std::option::|core::option::)?Option::<.*>::take$')
def c_opt_take(m, st, f, a):
    old = deref(a[0]); store(a[0], none()); return old


@contract(r'^(std::option::|core::option::)?Option::<.*>::(ok_or)::<')
def c_opt_ok_or(m, st, f, a):
    o = a[0]
    return err(a[1]) if disc_of(m, st, o) == 0 else ok(payload0(o))


@contract(r'^(std::result::|core::result::)?Result::<.*>::ok$')
def c_res_ok(m, st, f, a):
    o = a[0]
    return some(payload0(o, 0)) if disc_of(m, st, o) == 0 else none()


@contract(r'^(std::result::|core::result::)?Result::<.*>::(unwrap|expect)$')
def c_res_unwrap(m, st, f, a):
    o = a[0]
    if disc_of(m, st, o) != 0: raise Panic('called `Result::unwrap()` on an `Err` value')
    return payload0(o, 0)


def _is_fn_ctor(m, clo):
    """a tuple-struct / enum-variant constructor passed as a function"""
    if not isinstance(clo, FnItem): return None
    segs = [x for x in strip_g(clo.name).split('::') if x]
    if len(segs) >= 2 and segs[-2] in m.idx.enums and segs[-1] in m.idx.enums[segs[-2]]:
        vi = m.idx.enums[segs[-2]].index(segs[-1])
        return lambda x: Enum(segs[-2], vi, {vi: Agg([x])})
    return None


def strip_g(s):
    from .mir import strip_generics
    return strip_generics(s)


@contract(r'^(std::option::|core::option::)?Option::<.*>::map::<')
def c_opt_map(m, st, f, a):
    o, clo = a
    if disc_of(m, st, o) == 0: return none()
    ctor = _is_fn_ctor(m, clo)
    if ctor: return some(ctor(payload0(o)))
    return call_then(m, st, clo, [payload0(o)], lambda m, st, s, r: some(r))


@contract(r'^(std::option::|core::option::)?Option::<.*>::map_or::<')
def c_opt_map_or(m, st, f, a):
    o, dflt, clo = a
    if disc_of(m, st, o) == 0: return dflt
    return call_then(m, st, clo, [payload0(o)], lambda m, st, s, r: r)


@contract(r'^(std::option::|core::option::)?Option::<.*>::map_or_else::<')
def c_opt_map_or_else(m, st, f, a):
    o, dclo, clo = a
    if disc_of(m, st, o) == 0: return call_then(m, st, dclo, [], lambda m, st, s, r: r)
    return call_then(m, st, clo, [payload0(o)], lambda m, st, s, r: r)


@contract(r'^(std::option::|core::option::)?Option::<.*>::and_then::<')
def c_opt_and_then(m, st, f, a):
    o, clo = a
    if disc_of(m, st, o) == 0: return none()
    return call_then(m, st, clo, [payload0(o)], lambda m, st, s, r: r)


@contract(r'^(std::option::|core::option::)?Option::<.*>::(or_else|unwrap_or_else)::<')
def c_opt_or_else(m, st, f, a):
    o, clo = a
    if disc_of(m, st, o) == 1: return o if '::or_else' in f else payload0(o)
    return call_then(m, st, clo, [], lambda m, st, s, r: r)


@contract(r'^(std::option::|core::option::)?Option::<.*>::flatten$')
def c_opt_flatten(m, st, f, a):
    o = sv(a[0])
    if disc_of(m, st, o) == 0: return none()
    return payload0(o)


@contract(r'^(std::option::|core::option::)?Option::<.*>::or$')
def c_opt_or(m, st, f, a):
    return a[0] if disc_of(m, st, a[0]) == 1 else a[1]


@contract(r'^(std::result::|core::result::)?Result::<.*>::unwrap_or_else::<')
def c_res_unwrap_or_else(m, st, f, a):
    o, clo = a
    if disc_of(m, st, o) == 0: return payload0(o, 0)
    return call_then(m, st, clo, [payload0(o, 1)], lambda m, st, s, r: r)


@contract(r'^(std::result::|core::result::)?Result::<.*>::(map|map_err)::<')
def c_res_map(m, st, f, a):
    o, clo = a
    k = disc_of(m, st, o)
    want = 0 if '::map::<' in f else 1
    if k != want: return o
    return call_then(m, st, clo, [payload0(o, k)], lambda m, st, s, r: (ok(r) if want == 0 else err(r)))


def _then_filter(m, st, saved, r):
    b = bool_val(m, st, r)
    return some(saved) if b else none()


@contract(r'^(std::option::|core::option::)?Option::<.*>::filter::<')
def c_opt_filter(m, st, f, a):
    o, clo = a
    if disc_of(m, st, o) == 0: return none()
    x = payload0(o)
    return call_then(m, st, clo, [Ref(Cell(x))], _then_filter, x)


@contract(r'^(std::option::|core::option::)?Option::<.*>::is_some_and::<')
def c_opt_is_some_and(m, st, f, a):
    o, clo = a
    if disc_of(m, st, o) == 0: return False
    return call_then(m, st, clo, [payload0(o)], lambda m, st, s, r: r)


@contract(r'^(std::option::|core::option::)?Option::<.*>::is_none_or::<')
def c_opt_is_none_or(m, st, f, a):
    o, clo = a
    if disc_of(m, st, o) == 0: return True
    return call_then(m, st, clo, [payload0(o)], lambda m, st, s, r: r)


@contract(r'^<(std::option::)?Option<.*> as (Clone)>::clone$')
def c_opt_clone(m, st, f, a): return copy_val(deref(a[0]))


@contract(r'^<(std::option::)?Option<.*> as Default>::default$')
def c_opt_default(m, st, f, a): return none()


@contract(r'^([a-z_]+::)*bool::<impl bool>::then_some::<')
def c_then_some(m, st, f, a):
    return some(a[1]) if bool_val(m, st, a[0]) else none()


@contract(r'^([a-z_]+::)*bool::<impl bool>::then::<')
def c_bool_then(m, st, f, a):
    if not bool_val(m, st, a[0]): return none()
    return call_then(m, st, a[1], [], lambda m, st, s, r: some(r))


@contract(r'^<.* as Try>::branch$')
def c_try_branch(m, st, f, a):
    o = a[0]; k = disc_of(m, st, o)
    if o.ty == 'Option':
        return Enum('ControlFlow', 0, {0: Agg([payload0(o)])}) if k == 1 else Enum('ControlFlow', 1, {1: Agg([none()])})
    return Enum('ControlFlow', 0, {0: Agg([payload0(o, 0)])}) if k == 0 else Enum('ControlFlow', 1, {1: Agg([err(payload0(o, 1))])})


@contract(r'^<.* as FromResidual<.*>>::from_residual$')
def c_from_residual(m, st, f, a): return a[0]


# ---------------------------------------------------------------------------------------------- integers
@contract(r'^<(u8|u16|u32|u64|usize|i32|i64|isize) as Ord>::(max|min)$')
def c_int_maxmin(m, st, f, a):
    x, y = a; ty = x.ty; sg = ty in SIGNED
    if isinstance(x.e, int) and isinstance(y.e, int):
        sx, sy = (to_signed(x.e, ty), to_signed(y.e, ty)) if sg else (x.e, y.e)
        if f.endswith('max'): return y if sy >= sx else x
        return x if sx <= sy else y
    zx, zy = zi(x), zi(y)
    ge = (zy >= zx) if sg else z3.UGE(zy, zx)
    if f.endswith('max'): return IntV(z3.If(ge, zy, zx), ty)
    le = (zx <= zy) if sg else z3.ULE(zx, zy)
    return IntV(z3.If(le, zx, zy), ty)


@contract(r'^<(u8|u16|u32|u64|usize|i32|i64|isize) as Ord>::clamp$')
def c_int_clamp(m, st, f, a):
    x, lo, hi = a
    if bool_val(m, st, binop('Gt', lo, hi)): raise Panic('assertion failed: min <= max')
    if bool_val(m, st, binop('Lt', x, lo)): return lo
    if bool_val(m, st, binop('Gt', x, hi)): return hi
    return x


@contract(r'^<(u8|u16|u32|u64|usize|i32|i64|isize|char) as (Ord|PartialOrd)>::(cmp|partial_cmp)$')
def c_int_cmp(m, st, f, a):
    x, y = sv(a[0]), sv(a[1])
    r = binop('Cmp', x, y)
    c = conc_int(r)
    if c is None:
        c = m.concretize(st, r, [255, 0, 1])
    e = Enum('Ordering', to_signed(c, 'i8'), {})
    return some(e) if f.endswith('partial_cmp') else e


@contract(r'^([a-z_]+::)*num::<impl (u8|u16|u32|u64|usize|i32|i64|isize)>::(saturating_sub|saturating_add|wrapping_add|wrapping_sub|wrapping_mul)$')
def c_int_sat(m, st, f, a):
    x, y = a; ty = x.ty
    if 'wrapping_add' in f: return binop('Add', x, y)
    if 'wrapping_sub' in f: return binop('Sub', x, y)
    if 'wrapping_mul' in f: return binop('Mul', x, y)
    if ty in SIGNED: raise Inconclusive('signed saturating arithmetic')
    w = INT_TYPES[ty]
    if isinstance(x.e, int) and isinstance(y.e, int):
        if 'saturating_sub' in f: return IntV(max(0, x.e - y.e), ty)
        return IntV(min((1 << w) - 1, x.e + y.e), ty)
    zx, zy = zi(x), zi(y)
    if 'saturating_sub' in f: return IntV(z3.If(z3.ULT(zx, zy), z3.BitVecVal(0, w), zx - zy), ty)
    return IntV(z3.If(z3.ULT(zx + zy, zx), z3.BitVecVal((1 << w) - 1, w), zx + zy), ty)


@contract(r'^([a-z_]+::)*num::<impl (u8|u16|u32|u64|usize)>::(wrapping_add_signed|checked_add_signed|saturating_add_signed|overflowing_add_signed)$')
def c_int_add_signed(m, st, f, a):
    """unsigned + signed of the same width (two's complement: the wrapped sum is plain bit-vector addition)"""
    x, y = sv(a[0]), sv(a[1]); ty = x.ty; w = INT_TYPES[ty]
    yy = IntV(y.e if not isinstance(y.e, int) else y.e & ((1 << w) - 1), ty)
    s_ = binop('Add', x, yy)
    if 'wrapping' in f: return s_
    # overflow iff the mathematical result leaves [0, 2^w): y >= 0 and sum < x (carry), or y < 0 and sum > x (borrow)
    neg = binop('Lt', IntV(y.e, y.ty), IntV(0, y.ty))
    ovf = b_or(b_and(b_not(neg), binop('Lt', s_, x)), b_and(neg, binop('Gt', s_, x)))
    if 'overflowing' in f: return Agg([s_, ovf])
    o = bool_val(m, st, ovf)
    if 'checked' in f: return none() if o else some(s_)
    if not o: return s_
    return IntV(0, ty) if bool_val(m, st, neg) else IntV((1 << w) - 1, ty)


@contract(r'^([a-z_]+::)*num::<impl (u8|u16|u32|u64|usize|i32|i64|isize)>::(abs_diff|min|max|pow|is_power_of_two|leading_zeros|trailing_zeros|count_ones)$')
def c_int_misc(m, st, f, a):
    op = f.rsplit('::', 1)[1]
    x = sv(a[0])
    if op in ('min', 'max', 'abs_diff'):
        y = sv(a[1])
        lt = bool_val(m, st, binop('Lt', x, y))
        if op == 'min': return x if lt else y
        if op == 'max': return y if lt else x
        return binop('Sub', y, x) if lt else binop('Sub', x, y)
    if isinstance(x.e, int):
        w = INT_TYPES[x.ty]; v = x.e & ((1 << w) - 1)
        if op == 'is_power_of_two': return v != 0 and v & (v - 1) == 0
        if op == 'count_ones': return IntV(bin(v).count('1'), 'u32')
        if op == 'leading_zeros': return IntV(w - v.bit_length(), 'u32')
        if op == 'trailing_zeros': return IntV(w if v == 0 else (v & -v).bit_length() - 1, 'u32')
        if op == 'pow' and isinstance(sv(a[1]).e, int): return IntV((v ** sv(a[1]).e) & ((1 << w) - 1), x.ty)
    raise Inconclusive('integer operation %s on a symbolic value' % op)


@contract(r'^([a-z_]+::)*num::<impl (u8|u16|u32|u64|usize|i32|i64|isize)>::(checked_sub|checked_add)$')
def c_int_checked(m, st, f, a):
    x, y = a
    r = binop('SubWithOverflow' if 'checked_sub' in f else 'AddWithOverflow', x, y)
    ov = bool_val(m, st, r.f[1])
    return none() if ov else some(r.f[0])


@contract(r'^<&?(mut )?(u8|u16|u32|u64|usize|i32|i64|isize) as (Add|Sub|Mul)<&?(u8|u16|u32|u64|usize|i32|i64|isize)>>::(add|sub|mul)$')
def c_int_ref_arith(m, st, f, a):
    x, y = sv(a[0]), sv(a[1])
    op = {'add': 'Add', 'sub': 'Sub', 'mul': 'Mul'}[f.rsplit('::', 1)[1]]
    r = binop(op + 'WithOverflow', x, y)
    if m.overflow_checks:
        if bool_val(m, st, r.f[1]): raise Panic('attempt to %s with overflow' % op.lower())
    return r.f[0]


@contract(r'^<&?(mut )?(u8|u16|u32|u64|usize|i32|i64|isize|char|bool) as PartialEq<.*>>::(eq|ne)$|^<&?(mut )?(u8|u16|u32|u64|usize|i32|i64|isize|char|bool) as PartialEq>::(eq|ne)$')
def c_int_ref_eq(m, st, f, a):
    x, y = sv(a[0]), sv(a[1])
    return binop('Ne' if f.endswith('::ne') else 'Eq', x, y)


@contract(r'^<char as From<u8>>::from$', 3)
def c_char_from_u8(m, st, f, a): return cast(a[0], 'char')


@contract(r'^<(u32|u64|usize|i64|i32) as From<(u8|u16|u32|char|bool)>>::from$', 3)
def c_int_from(m, st, f, a):
    return cast(a[0], re.match(r'^<(\w+) as', f).group(1))


@contract(r'^<(u8|u16|u32|u64|usize|i32|i64|isize|bool|char) as Clone>::clone$', 3)
def c_prim_clone(m, st, f, a): return deref(a[0])


@contract(r'^([a-z_]+::)*char::methods::<impl char>::(len_utf8|len_utf16)$')
def c_char_len(m, st, f, a):
    c = a[0]
    k = conc_int(c)
    if k is None: raise Inconclusive('symbolic char length')
    if 'utf8' in f: return IntV(1 if k < 0x80 else 2 if k < 0x800 else 3 if k < 0x10000 else 4, 'usize')
    return IntV(1 if k < 0x10000 else 2, 'usize')


# ---------------------------------------------------------------------------------------------- Vec / slices
@contract(r'^(<Vec<.*> as Default>::default|Vec::<.*>::new|Vec::<.*>::with_capacity|VecDeque::<.*>::new|<VecDeque<.*> as Default>::default)$')
def c_vec_new(m, st, f, a): return vec([])


@contract(r'^Vec::<.*>::(len)$|^([a-z_]+::)*slice::<impl \[.*\]>::len$|^VecDeque::<.*>::len$')
def c_vec_len(m, st, f, a):
    v = sv(a[0])
    if isinstance(v, StrV): return IntV(v.len, 'usize')
    return IntV(len(v.f), 'usize')


@contract(r'^Vec::<.*>::is_empty$|^([a-z_]+::)*slice::<impl \[.*\]>::is_empty$|^VecDeque::<.*>::is_empty$')
def c_vec_is_empty(m, st, f, a):
    v = sv(a[0])
    if isinstance(v, StrV): return v.len == 0
    return len(v.f) == 0


@contract(r'^Vec::<.*>::(push|push_back)$|^VecDeque::<.*>::push_back$')
def c_vec_push(m, st, f, a):
    sv(a[0]).f.append(a[1]); return UNIT


@contract(r'^Vec::<.*>::pop$|^VecDeque::<.*>::pop_back$')
def c_vec_pop(m, st, f, a):
    v = sv(a[0])
    return some(v.f.pop()) if v.f else none()


@contract(r'^VecDeque::<.*>::pop_front$')
def c_vec_pop_front(m, st, f, a):
    v = sv(a[0])
    return some(v.f.pop(0)) if v.f else none()


@contract(r'^Vec::<.*>::(clear)$|^VecDeque::<.*>::clear$')
def c_vec_clear(m, st, f, a):
    sv(a[0]).f[:] = []; return UNIT


@contract(r'^Vec::<.*>::truncate$')
def c_vec_truncate(m, st, f, a):
    v = sv(a[0]); n = m.concretize(st, a[1], range(0, len(v.f) + 1)) if conc_int(a[1]) is None else conc_int(a[1])
    del v.f[n:]; return UNIT


@contract(r'^Vec::<.*>::reserve(_exact)?$|^Vec::<.*>::shrink_to_fit$')
def c_vec_reserve(m, st, f, a): return UNIT


@contract(r'^Vec::<.*>::(as_slice|as_mut_slice)$')
def c_vec_as_slice(m, st, f, a): return a[0]


@contract(r'^<Vec<.*> as Clone>::clone$|^([a-z_]+::)*slice::<impl \[.*\]>::to_vec$|^<\[.*\] as ToOwned>::to_owned$', 4)
def c_vec_clone(m, st, f, a):
    v = sv(a[0])
    if isinstance(v, StrV): return vec([IntV(b, 'u8') for b in v.bytes()])
    return vec([copy_val(x) for x in v.f])


def _index_conc(m, st, idx, n):
    c = conc_int(idx)
    if c is not None: return c
    return m.concretize(st, idx, list(range(n)) + [None]) if False else _conc_idx(m, st, idx, n)


def _conc_idx(m, st, idx, n):
    e = zi(idx)
    for k in range(n):
        if m.branch(st, e == z3.BitVecVal(k, e.size())): return k
    return n     # any out-of-range value


@contract(r'^<(Vec|VecDeque)<.*> as Index(Mut)?<usize>>::index(_mut)?$|^<\[.*\] as Index(Mut)?<usize>>::index(_mut)?$')
def c_vec_index(m, st, f, a):
    v, r = seq_of(a[0])
    if isinstance(v, StrV):
        k = _index_conc(m, st, a[1], v.len)
        if k >= v.len: raise Panic('index out of bounds')
        return Ref(Cell(IntV(v.byte(k), 'u8')))
    k = _index_conc(m, st, a[1], len(v.f))
    if k >= len(v.f): raise Panic('index out of bounds')
    return elem_ref(r, k)


def _range_of(m, st, rg, n, kind):
    """concrete (a, b) of a range operand over a sequence of length n"""
    cands = range(0, n + 2)
    if kind == 'Range': a_, b_ = rg.f[0], rg.f[1]
    elif kind == 'RangeFrom': a_, b_ = rg.f[0], IntV(n, 'usize')
    elif kind == 'RangeTo': a_, b_ = IntV(0, 'usize'), rg.f[0]
    elif kind == 'RangeFull': a_, b_ = IntV(0, 'usize'), IntV(n, 'usize')
    elif kind == 'RangeInclusive':
        a_, b_ = rg.f[0], binop('Add', rg.f[1], IntV(1, 'usize'))
    elif kind == 'RangeToInclusive':
        a_, b_ = IntV(0, 'usize'), binop('Add', rg.f[0], IntV(1, 'usize'))
    else: raise Inconclusive('range kind ' + kind)
    a = conc_int(a_); b = conc_int(b_)
    if a is None: a = _conc_idx(m, st, a_, n + 1)
    if b is None: b = _conc_idx(m, st, b_, n + 1)
    return a, b


def _range_kind(f):
    mm = re.search(r'(RangeInclusive|RangeFrom|RangeToInclusive|RangeTo|RangeFull|Range)<', f) or re.search(r'(RangeFull)', f)
    if not mm: raise Inconclusive('range kind in ' + f)
    return mm.group(1)


class SliceV(Agg):
    """a sub-slice view materialised as a list of element refs/values"""
    pass


@contract(r'^<(\[.*\]|Vec<.*>) as Index(Mut)?<(std::ops::)?Range.*>>::index(_mut)?$')
def c_bytes_index_range(m, st, f, a):
    v = sv(a[0])
    n = v.len if isinstance(v, StrV) else len(v.f)
    x, y = _range_of(m, st, a[1], n, _range_kind(f))
    if not (x <= y <= n): raise Panic('slice index out of range')
    if isinstance(v, StrV): return v.slice(x, y)
    return Ref(Cell(Agg(v.f[x:y])))


@contract(r'^([a-z_]+::)*slice::<impl \[.*\]>::(get|get_mut)::<usize>$')
def c_slice_get(m, st, f, a):
    v, r = seq_of(a[0])
    if isinstance(v, StrV):
        k = _index_conc(m, st, a[1], v.len)
        return some(Ref(Cell(IntV(v.byte(k), 'u8')))) if k < v.len else none()
    k = _index_conc(m, st, a[1], len(v.f))
    return some(elem_ref(r, k)) if k < len(v.f) else none()


@contract(r'^([a-z_]+::)*slice::<impl \[.*\]>::(get_unchecked|get_unchecked_mut)::<usize>$')
def c_slice_get_unchecked(m, st, f, a):
    v, r = seq_of(a[0])
    n = v.len if isinstance(v, StrV) else len(v.f)
    k = _index_conc(m, st, a[1], n)
    if k >= n: raise Panic('UB: slice::get_unchecked index out of bounds')
    if isinstance(v, StrV): return Ref(Cell(IntV(v.byte(k), 'u8')))
    return elem_ref(r, k)


@contract(r'^([a-z_]+::)*slice::<impl \[.*\]>::(first|last)(_mut)?$')
def c_slice_first_last(m, st, f, a):
    v, r = seq_of(a[0])
    if not v.f: return none()
    return some(elem_ref(r, 0 if 'first' in f else len(v.f) - 1))


@contract(r'^Vec::<.*>::(last|first)(_mut)?$')
def c_vec_first_last(m, st, f, a): return c_slice_first_last(m, st, f, a)


@contract(r'^Vec::<.*>::resize_with::<')
def c_vec_resize_with(m, st, f, a):
    v = sv(a[0]); n = conc_int(a[1])
    if n is None: n = m.concretize(st, a[1], range(0, 64))
    if n <= len(v.f):
        del v.f[n:]; return UNIT
    need = n - len(v.f)
    fr = ResizeWith(a[0], a[2], need, m.cur_ret)
    st.frames.append(fr)
    return PUSHED


class ResizeWith(Native):
    def __init__(self, vref, clo, need, ret): self.vref, self.clo, self.need, self.ret = vref, clo, need, ret

    def step(self, m, st):
        if self.need == 0:
            m.do_return(st, UNIT); return
        self.need -= 1
        m.invoke(st, self.clo, [], ('native',))

    def recv(self, m, st, v): sv(self.vref).f.append(v)


@contract(r'^Vec::<.*>::resize$')
def c_vec_resize(m, st, f, a):
    v = sv(a[0]); n = conc_int(a[1])
    if n is None: n = m.concretize(st, a[1], range(0, 64))
    if n <= len(v.f): del v.f[n:]
    else: v.f.extend(copy_val(a[2]) for _ in range(n - len(v.f)))
    return UNIT


@contract(r'^Vec::<.*>::extend_from_slice$|^<Vec<u8> as Extend<&u8>>::extend::<&(\[u8; \d+\]|\[u8\]|Vec<u8>)>$')
def c_vec_extend_slice(m, st, f, a):
    v = sv(a[0]); s = sv(a[1])
    if isinstance(s, StrV): v.f.extend(IntV(b, 'u8') for b in s.bytes())
    else: v.f.extend(copy_val(x) for x in s.f)
    return UNIT


@contract(r'^<(Vec|VecDeque)<.*> as Extend<.*>>::extend::<')
def c_vec_extend_iter(m, st, f, a):
    v = sv(a[0]); it = a[1]
    if isinstance(it, Iter) and not it.ops:
        v.f.extend(it.items[it.pos:]); return UNIT
    if isinstance(it, Agg):
        v.f.extend(it.f); return UNIT
    return drive_iter(m, st, it, 'extend', a[0])


@contract(r'^<(Vec<.*>|\[.*; \d+\]) as IntoIterator>::into_iter$')
def c_vec_into_iter(m, st, f, a): return Iter(list(a[0].f))


@contract(r'^<&(mut )?(Vec<.*>|\[.*\]) as IntoIterator>::into_iter$|^([a-z_]+::)*slice::<impl \[.*\]>::iter(_mut)?$|^VecDeque::<.*>::iter$')
def c_slice_iter(m, st, f, a):
    v, r = seq_of(a[0])
    if isinstance(v, StrV): return Iter([Ref(Cell(IntV(b, 'u8'))) for b in v.bytes()])
    return Iter([elem_ref(r, k) for k in range(len(v.f))])


@contract(r'^([a-z_]+::)*slice::<impl \[.*\]>::concat::<')
def c_slice_concat(m, st, f, a):
    v = sv(a[0]); out = []
    for x in v.f:
        x = sv(x)
        if isinstance(x, Enum) and x.ty == 'Cow': x = sv(payload0(x, disc_of(m, st, x)))
        if isinstance(x, StrV): out.extend(IntV(b, 'u8') for b in x.bytes())
        else: out.extend(x.f)
    return vec(out)


@contract(r'^([a-z_]+::)*slice::<impl \[.*\]>::(binary_search_by|partition_point)::<')
def c_binary_search_by(m, st, f, a):
    v, r = seq_of(a[0])
    st.frames.append(BinSearch(r, len(v.f), a[1], 'partition' in f, m.cur_ret))
    return PUSHED


class BinSearch(Native):
    """std's binary_search_by (1.83+ loop: `while size > 1 { half = size/2; mid = base+half; base = if cmp(mid) == Greater {base} else {mid}; size -= half }`),
    returning the LAST of several equal keys is therefore what the implementation does; partition_point likewise by definition."""

    def __init__(self, r, n, clo, part, ret):
        self.r, self.n, self.clo, self.part, self.ret = r, n, clo, part, ret
        self.base, self.size, self.phase, self.mid = 0, n, 0, None

    def step(self, m, st):
        if self.n == 0:
            m.do_return(st, IntV(0, 'usize') if self.part else err(IntV(0, 'usize'))); return
        if self.phase == 0:
            if self.size > 1:
                half = self.size // 2
                self.mid = self.base + half
                self.half = half
                self.phase = 1
                m.invoke(st, self.clo, [elem_ref(self.r, self.mid)], ('native',))
                return
            self.phase = 2
            m.invoke(st, self.clo, [elem_ref(self.r, self.base)], ('native',))
            return
        raise Inconclusive('BinSearch state')

    def recv(self, m, st, v):
        if self.part:
            # predicate true -> Less (go right)
            b = bool_val(m, st, v)
            cmp = -1 if b else 1
        else:
            cmp = v.disc if isinstance(v.disc, int) else to_signed(conc_int(IntV(v.disc, 'i8')), 'i8')
        if self.phase == 1:
            if cmp != 1: self.base = self.mid
            self.size -= self.half
            self.phase = 0
            return
        # final
        st.frames.pop()
        if self.part:
            res = IntV(self.base + (1 if cmp == -1 else 0), 'usize')
        elif cmp == 0: res = ok(IntV(self.base, 'usize'))
        else: res = err(IntV(self.base + (1 if cmp == -1 else 0), 'usize'))
        m.deliver(st, self.ret, res)


# ---------------------------------------------------------------------------------------------- iterators
@contract(r'^<.* as IntoIterator>::into_iter$', 9)
def c_into_iter_identity(m, st, f, a):
    x = a[0]
    if isinstance(sv(x), Iter) or hasattr(sv(x), 'is_iterator'): return x
    t = re.match(r'^<(.*) as IntoIterator>::into_iter$', f).group(1)
    if not re.match(r'^(&|Vec<|\[|HashMap|std::collections|VecDeque|Option|std::option)', t):
        return x          # every Iterator is its own IntoIterator
    return NotImplemented


@contract(r'^<std::ops::Range<(u32|usize|u64|i32|i64)> as IntoIterator>::into_iter$', 3)
def c_range_into_iter(m, st, f, a): return a[0]


@contract(r'^<std::ops::Range<(u32|usize|u64|i32|i64)> as Iterator>::next$', 3)
def c_range_next(m, st, f, a):
    r = deref(a[0]); lo, hi = r.f
    lt = binop('Lt', lo, hi)
    if bool_val(m, st, lt):
        r.f[0] = binop('Add', lo, IntV(1, lo.ty)); return some(lo)
    return none()


@contract(r'^<std::ops::Range<(u32|usize|u64|i32|i64)> as Iterator>::for_each::<', 3)
def c_range_for_each(m, st, f, a):
    r, clo = a; lo, hi = r.f
    n0, n1 = conc_int(lo), conc_int(hi)
    if n0 is None or n1 is None:
        d = binop('Sub', hi, lo)
        lt = binop('Lt', lo, hi)
        if not bool_val(m, st, lt): return UNIT
        k = m.concretize(st, d, range(1, m.loop_bound + 1))
        items = [binop('Add', lo, IntV(i, lo.ty)) for i in range(k)]
    else:
        items = [IntV(i, lo.ty) for i in range(n0, n1)]
    return drive_iter(m, st, Iter(items), 'for_each', clo)


@contract(r'^<.* as Iterator>::(map|filter|filter_map|enumerate|take|skip|rev|peekable|copied|cloned|chain|zip|take_while|skip_while|flat_map|flatten|inspect|by_ref)(::<.*)?$', 7)
def c_iter_adapt(m, st, f, a):
    it = a[0]
    op = re.search(r' as Iterator>::(\w+)', f).group(1)
    base = sv(it) if isinstance(it, Ref) else it
    if isinstance(base, Agg) and not base.ty: base = Iter(list(base.f))       # array::IntoIter
    if not isinstance(base, Iter):
        base = crate_iter(m, f, it)
        if base is None: raise Inconclusive('iterator adaptor %s on %r' % (op, sv(it)))
    if op == 'by_ref': return a[0]
    if op == 'rev':
        if base.ops or base.src is not None: raise Inconclusive('rev after adaptors')
        return Iter(list(reversed(base.items[base.pos:])))
    if op in ('take', 'skip'):
        n = conc_int(a[1])
        if n is None: n = m.concretize(st, a[1], range(0, 64))
        if base.ops or base.src is not None: return Iter(base.items, base.pos, base.ops + ((op, n),), base.count, base.src)
        rest = base.items[base.pos:]
        return Iter(rest[:n] if op == 'take' else rest[n:])
    if op in ('chain', 'zip'):
        o = a[1]
        o = sv(o) if isinstance(o, Ref) else o
        if isinstance(o, Agg): o = Iter(list(o.f))
        if base.ops or o.ops or base.src is not None or o.src is not None: raise Inconclusive(op + ' after adaptors')
        x, y = base.items[base.pos:], o.items[o.pos:]
        return Iter(x + y) if op == 'chain' else Iter([Agg([p, q]) for p, q in zip(x, y)])
    arg = a[1] if len(a) > 1 else None
    return Iter(base.items, base.pos, base.ops + ((op, arg),), base.count, base.src)


@contract(r'^(std::iter::)?Peekable::<.*>::peek$', 6)
def c_peekable_peek(m, st, f, a):
    """Peekable::peek on an iterator without pending closure adaptors: a reference to the next item, nothing consumed"""
    it = sv(a[0])
    if not isinstance(it, Iter) or it.src is not None or any(op not in ('peekable',) for op, _ in it.ops):
        raise Inconclusive('peek on %r' % (it,))
    if it.pos >= len(it.items): return none()
    return some(Ref(Cell(it.items[it.pos])))


class IterDriver(Native):
    """pulls items of an Iter through its adaptor chain, calling closures; mode decides what to do with results"""

    def __init__(self, it, mode, arg, ret, itref=None):
        self.it, self.mode, self.arg, self.ret, self.itref = it, mode, arg, ret, itref
        self.out = []
        self.cur = None; self.stage = 0; self.waiting = None; self.have = False
        self.acc = None
        self.done = False

    # one item is pushed through ops[stage:]; closures are called one at a time
    def step(self, m, st):
        it = self.it
        if self.waiting is not None:
            raise Inconclusive('IterDriver stepped while waiting')
        if not self.have:
            if self.done: return self.finish(m, st)
            if it.src is not None:
                self.waiting = 'pull'
                m.call_fn(st, it.src[1], [it.src[0]], ('native',))
                return
            if it.pos >= len(it.items):
                return self.finish(m, st)
            self.cur = it.items[it.pos]; it.pos += 1
            self.stage = 0; self.have = True
        while self.stage < len(it.ops):
            op, arg = it.ops[self.stage]
            if op == 'enumerate':
                self.cur = Agg([IntV(it.count, 'usize'), self.cur]); it.count += 1; self.stage += 1
            elif op in ('copied', 'cloned'):
                self.cur = copy_val(deref(self.cur)); self.stage += 1
            elif op == 'peekable' or op == 'inspect' and False:
                self.stage += 1
            elif op in ('map', 'filter', 'filter_map', 'take_while', 'skip_while', 'inspect', 'flat_map'):
                ctor = _is_fn_ctor(m, arg) if op == 'map' else None
                if ctor is not None:
                    self.cur = ctor(self.cur); self.stage += 1; continue
                self.waiting = op
                x = self.cur
                if op in ('filter', 'take_while', 'skip_while', 'inspect'): x = Ref(Cell(self.cur))
                m.invoke(st, arg, [x], ('native',))
                return
            elif op == 'flatten':
                x = sv(self.cur)
                if not (isinstance(x, Enum) and x.ty == 'Option'): raise Inconclusive('flatten over %r' % (x,))
                if disc_of(m, st, x) == 1: self.cur = payload0(x); self.stage += 1
                else: self.have = False; return
            elif op in ('take', 'skip'):
                # positional adaptors after closures: count items reaching this stage
                key = ('n', self.stage)
                cnt = getattr(self, 'cnt', {}); self.cnt = cnt
                c = cnt.get(self.stage, 0); cnt[self.stage] = c + 1
                if op == 'take' and c >= arg: self.done = True; self.have = False; return
                if op == 'skip' and c < arg: self.have = False; return
                self.stage += 1
            else:
                raise Inconclusive('iterator adaptor ' + op)
        # item completed the chain
        self.have = False
        self.consume(m, st, self.cur)

    def recv(self, m, st, v):
        if self.waiting == 'consume':
            self.waiting = None
            return self.after_consume(m, st, v)
        if self.waiting == 'pull':
            self.waiting = None
            if disc_of(m, st, v) == 0: self.done = True
            else:
                self.cur = payload0(v); self.stage = 0; self.have = True
            return
        op = self.waiting; self.waiting = None
        if op == 'map': self.cur = v; self.stage += 1
        elif op == 'inspect': self.stage += 1
        elif op == 'filter':
            if bool_val(m, st, v): self.stage += 1
            else: self.have = False
        elif op == 'take_while':
            if bool_val(m, st, v): self.stage += 1
            else: self.have = False; self.done = True
        elif op == 'filter_map':
            if disc_of(m, st, v) == 1: self.cur = payload0(v); self.stage += 1
            else: self.have = False
        elif op == 'flat_map':
            raise Inconclusive('flat_map')
        else: raise Inconclusive('IterDriver recv ' + str(op))

    def consume(self, m, st, x):
        md = self.mode
        if md == 'next':
            st.frames.pop(); m.deliver(st, self.ret, some(x))
        elif md in ('collect', 'extend', 'count', 'last'):
            self.out.append(x)
        elif md in ('for_each',):
            self.waiting = 'consume'
            m.invoke(st, self.arg, [x], ('native',))
        elif md in ('any', 'all', 'find', 'position', 'find_map'):
            self.waiting = 'consume'; self.item = x
            m.invoke(st, self.arg, [Ref(Cell(x)) if md == 'find' else x], ('native',))
        elif md == 'fold':
            self.waiting = 'consume'
            m.invoke(st, self.arg, [self.acc, x], ('native',))
        elif md == 'try_for_each':
            self.waiting = 'consume'
            m.invoke(st, self.arg, [x], ('native',))
        elif md in ('max', 'min', 'sum'):
            self.out.append(x)
        else:
            raise Inconclusive('iterator consumer ' + md)

    def after_consume(self, m, st, v):
        md = self.mode
        if md == 'for_each': return
        if md == 'fold': self.acc = v; return
        if md == 'try_for_each':
            k = disc_of(m, st, v)
            cont = (k == 0) if v.ty == 'Result' else ((k == 1) if v.ty == 'Option' else (k == 0))
            if not cont:
                st.frames.pop(); m.deliver(st, self.ret, v)
            else: self.last_ok = v
            return
        if md == 'any':
            if bool_val(m, st, v): st.frames.pop(); m.deliver(st, self.ret, True)
        elif md == 'all':
            if not bool_val(m, st, v): st.frames.pop(); m.deliver(st, self.ret, False)
        elif md == 'find':
            if bool_val(m, st, v): st.frames.pop(); m.deliver(st, self.ret, some(self.item))
        elif md == 'find_map':
            if disc_of(m, st, v) == 1: st.frames.pop(); m.deliver(st, self.ret, v)
        elif md == 'position':
            self.posn = getattr(self, 'posn', 0)
            if bool_val(m, st, v): st.frames.pop(); m.deliver(st, self.ret, some(IntV(self.posn, 'usize')))
            else: self.posn += 1

    def finish(self, m, st):
        md = self.mode
        st.frames.pop()
        if md == 'next': r = none()
        elif md == 'collect':
            r = self.arg(self.out) if callable(self.arg) else vec(self.out)
        elif md == 'extend':
            sv(self.arg).f.extend(self.out); r = UNIT
        elif md == 'for_each': r = UNIT
        elif md == 'try_for_each': r = getattr(self, 'last_ok', None) or ok(UNIT)
        elif md == 'fold': r = self.acc
        elif md == 'any': r = False
        elif md == 'all': r = True
        elif md in ('find', 'position', 'find_map'): r = none()
        elif md == 'count': r = IntV(len(self.out), 'usize')
        elif md == 'last': r = some(self.out[-1]) if self.out else none()
        elif md in ('max', 'min'):
            if not self.out: r = none()
            else:
                best = self.out[0]
                for x in self.out[1:]:
                    xv, bv_ = sv(x), sv(best)
                    ge = binop('Ge' if md == 'max' else 'Lt', xv, bv_)
                    if bool_val(m, st, ge): best = x
                r = some(best)
        elif md == 'sum':
            acc = IntV(0, self.arg)
            for x in self.out: acc = binop('Add', acc, sv(x))
            r = acc
        else: raise Inconclusive('finish ' + md)
        m.deliver(st, self.ret, r)


def crate_iter(m, f, it):
    """wrap a crate-defined iterator value (its `next` is interpreted from MIR)"""
    v = sv(it) if isinstance(it, Ref) else it
    if isinstance(v, Agg) and v.ty and v.ty not in ('Vec', 'RefCell', 'OnceCell'):
        mm = re.match(r'^<(.*) as Iterator>::', f)
        ty = mm.group(1) if mm else v.ty
        r = it if isinstance(it, Ref) else Ref(Cell(v))
        return Iter([], 0, (), 0, (r, '<%s as Iterator>::next' % ty))
    return None


def range_items(m, st, r):
    lo, hi = r.f[0], r.f[1]
    n0, n1 = conc_int(lo), conc_int(hi)
    if n0 is not None and n1 is not None: return [IntV(i, lo.ty) for i in range(n0, n1)]
    if not bool_val(m, st, binop('Lt', lo, hi)): return []
    k = m.concretize(st, binop('Sub', hi, lo), range(1, m.loop_bound + 1))
    return [binop('Add', lo, IntV(i, lo.ty)) for i in range(k)]


def drive_iter(m, st, it, mode, arg, fname=''):
    base = sv(it) if isinstance(it, Ref) else it
    if isinstance(base, Agg) and base.ty == 'Range':
        items = range_items(m, st, base)
        if isinstance(it, Ref): base.f[0] = base.f[1]
        base = Iter(items)
    if not isinstance(base, Iter):
        base = crate_iter(m, fname, it)
        if base is None: raise Inconclusive('iterator consumer %s on %r' % (mode, sv(it)))
    d = IterDriver(base, mode, arg, m.cur_ret)
    st.frames.append(d)
    return PUSHED


@contract(r'^<.* as Iterator>::next$', 8)
def c_iter_next(m, st, f, a):
    it = sv(a[0])
    if isinstance(it, Iter):
        if not it.ops and it.src is None:
            if it.pos < len(it.items):
                x = it.items[it.pos]; it.pos += 1; return some(x)
            return none()
        return drive_iter(m, st, it, 'next', None)
    return NotImplemented


@contract(r'^<.* as DoubleEndedIterator>::next_back$', 8)
def c_iter_next_back(m, st, f, a):
    it = sv(a[0])
    if isinstance(it, Iter) and not it.ops:
        if it.pos < len(it.items): return some(it.items.pop())
        return none()
    return NotImplemented


@contract(r'^<.* as Iterator>::for_each::<', 8)
def c_iter_for_each(m, st, f, a): return drive_iter(m, st, a[0], 'for_each', a[1], f)


@contract(r'^<.* as Iterator>::(any|all|find|position|find_map)::<', 8)
def c_iter_any(m, st, f, a):
    return drive_iter(m, st, a[0], re.search(r'Iterator>::(\w+)', f).group(1), a[1], f)


@contract(r'^<.* as Iterator>::try_for_each::<', 8)
def c_iter_try_for_each(m, st, f, a): return drive_iter(m, st, a[0], 'try_for_each', a[1], f)


@contract(r'^<.* as Iterator>::fold::<', 8)
def c_iter_fold(m, st, f, a):
    base = sv(a[0]) if isinstance(a[0], Ref) else a[0]
    if not isinstance(base, Iter): base = crate_iter(m, f, a[0])
    if not isinstance(base, Iter): raise Inconclusive('fold on %r' % (base,))
    d = IterDriver(base, 'fold', a[2], m.cur_ret); d.acc = a[1]
    st.frames.append(d); return PUSHED


@contract(r'^<.* as Iterator>::(count|last|max|min)$', 8)
def c_iter_count(m, st, f, a):
    return drive_iter(m, st, a[0], re.search(r'Iterator>::(\w+)$', f).group(1), None, f)


@contract(r'^<.* as Iterator>::sum::<(\w+)>$', 8)
def c_iter_sum(m, st, f, a):
    return drive_iter(m, st, a[0], 'sum', re.search(r'sum::<(\w+)>$', f).group(1), f)


@contract(r'^<.* as Iterator>::collect::<(.*)>$', 8)
def c_iter_collect(m, st, f, a):
    tgt = re.search(r'collect::<(.*)>$', f).group(1)
    if tgt.startswith('Vec<') or tgt.startswith('VecDeque<'): mk = None
    elif tgt in ('std::string::String', 'String'):
        def mk(out):
            bs = []
            for x in out:
                x = sv(x)
                if isinstance(x, IntV):
                    c = conc_int(x)
                    if c is None:
                        if x.ty == 'char': bs.append(z3.Extract(7, 0, zi(x)))      # ASCII-only texts
                        else: bs.append(zi(x))
                    else: bs.extend(chr(c).encode('utf-8') if x.ty == 'char' else [c])
                else: bs.extend(as_str(x).bytes())
            return StrV(tuple(bs))
    else: raise Inconclusive('collect into ' + tgt)
    it = a[0]
    base = sv(it) if isinstance(it, Ref) else it
    if isinstance(base, Iter) and not base.ops and base.src is None:
        out = base.items[base.pos:]; base.pos = len(base.items)
        return mk(out) if mk else vec(out)
    return drive_iter(m, st, it, 'collect', mk, f)


@contract(r'^std::iter::repeat::<')
def c_iter_repeat(m, st, f, a): return Opaque('repeat', a[0])


@contract(r'^<std::iter::Repeat<.*> as Iterator>::take$', 3)
def c_repeat_take(m, st, f, a):
    n = conc_int(a[1])
    if n is None: n = m.concretize(st, a[1], range(0, m.loop_bound + 1))
    return Iter([copy_val(a[0].data) for _ in range(n)])


@contract(r'^std::iter::(once|empty)::<')
def c_iter_once(m, st, f, a): return Iter([a[0]] if 'once' in f else [])


# ---------------------------------------------------------------------------------------------- RefCell / Cell / OnceCell
@contract(r'^(RefCell|std::cell::RefCell|Cell|std::cell::Cell)::<.*>::new$')
def c_refcell_new(m, st, f, a): return Agg([a[0]], 'RefCell')


@contract(r'^RefCell::<.*>::(borrow|borrow_mut)$')
def c_refcell_borrow(m, st, f, a):
    r = a[0]; return Ref(r.cell, r.path + (0,))


@contract(r'^RefCell::<.*>::into_inner$')
def c_refcell_into_inner(m, st, f, a): return a[0].f[0]


@contract(r'^Cell::<.*>::get$')
def c_cell_get(m, st, f, a): return copy_val(sv(a[0]).f[0])


@contract(r'^Cell::<.*>::set$')
def c_cell_set(m, st, f, a): sv(a[0]).f[0] = a[1]; return UNIT


@contract(r'^<std::cell::Ref(Mut)?<.*> as Deref(Mut)?>::deref(_mut)?$', 3)
def c_refguard_deref(m, st, f, a): return deref(a[0])


@contract(r'^(OnceCell|std::cell::OnceCell|OnceLock|std::sync::OnceLock)::<.*>::new$|^<(OnceCell|OnceLock)<.*> as Default>::default$')
def c_once_new(m, st, f, a): return Agg([none()], 'OnceCell')


@contract(r'^(OnceCell|OnceLock)::<.*>::get$')
def c_once_get(m, st, f, a):
    r = a[0]; c = deref(r)
    if c.f[0].disc == 0: return none()
    return some(Ref(r.cell, r.path + (0, ('dc', 1), 0)))


@contract(r'^(OnceCell|OnceLock)::<.*>::get_or_init::<')
def c_once_get_or_init(m, st, f, a):
    r = a[0]; c = deref(r)
    inner = Ref(r.cell, r.path + (0, ('dc', 1), 0))
    if c.f[0].disc == 1: return inner
    def then(m, st, saved, v):
        cc = deref(saved)
        if cc.f[0].disc == 1: raise Panic('reentrant init')
        cc.f[0] = some(v)
        return Ref(saved.cell, saved.path + (0, ('dc', 1), 0))
    return call_then(m, st, a[1], [], then, r)


@contract(r'^(OnceCell|OnceLock)::<.*>::(take|into_inner)$')
def c_once_take(m, st, f, a):
    """take(&mut self) -> Option<T>, leaving the cell uninitialised; into_inner(self) -> Option<T>"""
    if f.endswith('into_inner'): return sv(a[0]).f[0]
    c = deref(a[0]); old = c.f[0]; c.f[0] = none(); return old


@contract(r'^(OnceCell|OnceLock)::<.*>::set$')
def c_once_set(m, st, f, a):
    c = deref(a[0])
    if disc_of(m, st, c.f[0]) == 1: return err(a[1])
    c.f[0] = some(a[1]); return ok(UNIT)


@contract(r'^<(OnceCell|OnceLock)<.*> as Clone>::clone$', 3)
def c_once_clone(m, st, f, a): return copy_val(deref(a[0]))


# ---------------------------------------------------------------------------------------------- closures
@contract(r'^<.* as Fn(Mut|Once)?<.*>>::call(_mut|_once)?$')
def c_fn_call(m, st, f, a):
    tup = a[1]
    tgt = a[0]
    # a non-capturing closure bound to a local is a zero-sized value that MIR never assigns ('_2' stays uninitialised and
    # only '&_2' is passed): materialise it from the callee type
    mm = re.match(r'^<(\{closure@[^}]*\}) as Fn', f)
    if mm:
        t = tgt
        while isinstance(t, Ref): t = deref(t)
        if t is None:
            cv = ClosureV(mm.group(1), []); cv.subst = st.frames[-1].subst
            tgt = cv
    m.invoke(st, tgt, list(tup.f), m.cur_ret)
    return PUSHED


# ---------------------------------------------------------------------------------------------- misc
@contract(r'^<.* as Default>::default$', 9)
def c_default_prim(m, st, f, a):
    t = re.match(r'^<(.*) as Default>::default$', f).group(1)
    if t in INT_TYPES: return IntV(0, t)
    if t == 'bool': return False
    if t in ('std::string::String', 'String', '&str'): return mkstr('')
    if t.startswith('Rope<'): return NotImplemented if getattr(m, 'rope_real', False) else RopeV([])
    d = default_of(m, t)
    if d is not None: return d
    if re.match(r'^[A-Z][A-Za-z0-9]?$', t):
        rt = generic_runtime_type(m, st, t)
        if rt == 'str': return mkstr('')
        if rt == 'Rope' and getattr(m, 'rope_real', False): return m_call_default_rope(m, st)
        if rt == 'Rope': return RopeV([])
    return NotImplemented


def default_of(m, t):
    """Default::default() of std types given by their printed type (None when unknown)"""
    t = t.strip()
    if t in INT_TYPES: return IntV(0, t)
    if t == 'bool': return False
    if t in ('std::string::String', 'String', '&str'): return mkstr('')
    if t.startswith('Cow<') and 'str' in t: return Enum('Cow', 0, {0: Agg([mkstr('')])})
    if t.startswith(('std::option::Option<', 'Option<')): return none()
    if t.startswith(('Vec<', 'VecDeque<')): return vec([])
    if t.startswith(('OnceCell<', 'OnceLock<', 'std::cell::OnceCell<')): return Agg([none()], 'OnceCell')
    if t.startswith('Rope<') and not getattr(m, 'rope_real', False): return RopeV([])
    if t.startswith('(') and t.endswith(')'):
        parts = [default_of(m, x) for x in split_top(t[1:-1])]
        if all(p is not None for p in parts): return Agg(parts)
    return None


def m_call_default_rope(m, st):
    it = m.lookup("<Rope<'_> as Default>::default", [])
    if it is None: raise Inconclusive('Rope::default not found')
    m.push_frame(st, it, [], m.cur_ret, "<Rope<'_> as Default>::default")
    return PUSHED


def generic_runtime_type(m, st, param):
    """runtime type bound to generic parameter `param` in the calling frame, read off an argument declared with that type"""
    for fr in reversed(st.frames):
        if fr.native: continue
        for i, ty in enumerate(fr.body.arg_tys):
            t = ty.replace('&mut ', '').replace('&', '').strip()
            if t == param:
                v = fr.local(i + 1).v
                rt = m.runtime_type(v)
                if rt: return rt
        # closures see the parameter through their parent function: keep walking down the stack
    return None


@contract(r'^(std::hint|core::hint)::(black_box|assert_unchecked|unreachable_unchecked)')
def c_hint(m, st, f, a):
    if 'unreachable' in f: raise Panic('UB: unreachable_unchecked reached')
    return a[0] if 'black_box' in f else UNIT


@contract(r'^(std::)?(panicking|rt)::(panic|panic_fmt|begin_panic|panic_display|panic_nounwind|assert_failed)|^core::panicking::|^std::rt::begin_panic|::panicking::(panic|panic_fmt|panic_explicit|unreachable_display|assert_failed)')
def c_panic(m, st, f, a): raise Panic('explicit panic: ' + f)


@contract(r'^std::ops::RangeInclusive::<.*>::new$', 3)
def c_range_incl_new(m, st, f, a): return Agg([a[0], a[1], False], 'RangeInclusive')


@contract(r'^<std::ops::RangeInclusive<(u32|usize|u64|i32|i64)> as IntoIterator>::into_iter$', 3)
def c_range_incl_into_iter(m, st, f, a): return a[0]


@contract(r'^<std::ops::RangeInclusive<(u32|usize|u64|i32|i64)> as Iterator>::next$', 3)
def c_range_incl_next(m, st, f, a):
    r = deref(a[0]); lo, hi, done = r.f
    if done is True: return none()
    if bool_val(m, st, binop('Lt', lo, hi)):
        r.f[0] = binop('Add', lo, IntV(1, lo.ty)); return some(lo)
    if bool_val(m, st, binop('Eq', lo, hi)):
        r.f[2] = True; return some(lo)
    return none()


# ---------------------------------------------------------------------------------------------- HashMap (finite association list)
def key_eq(m, st, a, b):
    a, b = sv(a), sv(b)
    if isinstance(a, Enum) and a.ty == 'Cow': a = sv(payload0(a, disc_of(m, st, a)))
    if isinstance(b, Enum) and b.ty == 'Cow': b = sv(payload0(b, disc_of(m, st, b)))
    if isinstance(a, StrV) and isinstance(b, StrV): return bool_val(m, st, str_eq(a, b))
    if isinstance(a, IntV) and isinstance(b, IntV): return bool_val(m, st, binop('Eq', a, b))
    if isinstance(a, Agg) and isinstance(b, Agg) and len(a.f) == len(b.f):
        return all(key_eq(m, st, x, y) for x, y in zip(a.f, b.f))
    if isinstance(a, bool) or isinstance(b, bool): return bool_val(m, st, binop('Eq', a, b))
    raise Inconclusive('map key comparison of %r and %r' % (a, b))


@contract(r'^<(HashMap|std::collections::HashMap)<.*> as Default>::default$|^(HashMap|std::collections::HashMap)::<.*>::(new|with_hasher|with_capacity_and_hasher|default)$', 3)
def c_map_default(m, st, f, a): return PyMap([])


@contract(r'^HashMap::<.*>::(get|get_mut)::<', 3)
def c_map_get(m, st, f, a):
    r = a[0]; mp = deref(r)
    for i, (k, v) in enumerate(mp.entries):
        if key_eq(m, st, k, a[1]): return some(MapValRef(r, i))
    return none()


def MapValRef(r, i):
    # value cells live inside the PyMap entries list; give out a reference to a cell that aliases the entry
    mp = deref(r)
    k, v = mp.entries[i]
    if not isinstance(v, _Boxed):
        v = _Boxed(Cell(v)); mp.entries[i] = (k, v)
    return Ref(v.cell)


class _Boxed:
    __slots__ = ('cell',)

    def __init__(self, cell): self.cell = cell

    def clone_with(self, cl): return _Boxed(cl.cell(self.cell))


def _unbox(v): return v.cell.v if isinstance(v, _Boxed) else v


@contract(r'^HashMap::<.*>::contains_key::<', 3)
def c_map_contains(m, st, f, a):
    mp = deref(a[0])
    return any(key_eq(m, st, k, a[1]) for k, _ in mp.entries)


@contract(r'^HashMap::<.*>::len$', 3)
def c_map_len(m, st, f, a): return IntV(len(deref(a[0]).entries), 'usize')


@contract(r'^HashMap::<.*>::is_empty$', 3)
def c_map_is_empty(m, st, f, a): return len(deref(a[0]).entries) == 0


@contract(r'^HashMap::<.*>::insert$', 3)
def c_map_insert(m, st, f, a):
    mp = deref(a[0])
    for i, (k, v) in enumerate(mp.entries):
        if key_eq(m, st, k, a[1]):
            old = _unbox(v); mp.entries[i] = (k, a[2]); return some(old)
    mp.entries.append((a[1], a[2])); return none()


@contract(r'^HashMap::<.*>::clear$', 3)
def c_map_clear(m, st, f, a): deref(a[0]).entries[:] = []; return UNIT


# ---------------------------------------------------------------------------------------------- sync primitives
# Sequentially consistent cells. With the thread scheduler of stage S5 installed (m.hooks['sched']) these calls are the
# schedule points; a lock is an owner field.
def _sched(m, st, what, obj=None):
    h = m.hooks.get('sched')
    if h: h(m, st, what, obj)


@contract(r'^(std::sync::)?Mutex::<.*>::new$|^(std::sync::)?RwLock::<.*>::new$', 3)
def c_mutex_new(m, st, f, a): return Agg([a[0], None], 'Mutex')


@contract(r'^(std::sync::)?Mutex::<.*>::lock$', 3)
def c_mutex_lock(m, st, f, a):
    r = a[0]
    _sched(m, st, 'lock', r)
    h = m.hooks.get('lock')
    if h: h(m, st, r)
    return ok(Ref(r.cell, r.path + (0,), meta=('guard', r)))


@contract(r'^(std::sync::)?Mutex::<.*>::try_lock$', 3)
def c_mutex_try_lock(m, st, f, a):
    """Ok(guard) when the mutex is free, Err(WouldBlock) when another thread holds it (never blocks)"""
    r = a[0]
    _sched(m, st, 'lock', r)
    T = st.extra.get('thr')
    if T is not None:
        from .threads import lock_key
        k = ('mutex',) + lock_key(r)
        owner = T['locks'].get(k)
        if owner is not None: return err(Opaque('TryLockError', 'WouldBlock'))
        T['locks'][k] = T['cur']
    return ok(Ref(r.cell, r.path + (0,), meta=('guard', r)))


@contract(r'^(std::sync::)?Mutex::<.*>::(into_inner|get_mut)$', 3)
def c_mutex_into_inner(m, st, f, a):
    if f.endswith('get_mut'): return ok(Ref(a[0].cell, a[0].path + (0,)))
    return ok(a[0].f[0])


@contract(r'^(Atomic|std::sync::atomic::Atomic(Bool|Usize|U32|U64)?)(::<.*>)?::new$', 3)
def c_atomic_new(m, st, f, a): return Agg([a[0]], 'Atomic')


@contract(r'^(Atomic|std::sync::atomic::Atomic(Bool|Usize|U32|U64)?)(::<.*>)?::load$', 3)
def c_atomic_load(m, st, f, a):
    _sched(m, st, 'load', a[0])
    return copy_val(sv(a[0]).f[0])


@contract(r'^(Atomic|std::sync::atomic::Atomic(Bool|Usize|U32|U64)?)(::<.*>)?::store$', 3)
def c_atomic_store(m, st, f, a):
    _sched(m, st, 'store', a[0])
    sv(a[0]).f[0] = a[1]; return UNIT


@contract(r'^(Atomic|std::sync::atomic::Atomic(Bool|Usize|U32|U64)?)(::<.*>)?::(swap|fetch_add|fetch_or|fetch_and)$', 3)
def c_atomic_rmw(m, st, f, a):
    _sched(m, st, 'rmw', a[0])
    c = sv(a[0]); old = c.f[0]
    op = f.rsplit('::', 1)[1]
    c.f[0] = a[1] if op == 'swap' else binop({'fetch_add': 'Add', 'fetch_or': 'BitOr', 'fetch_and': 'BitAnd'}[op], old, a[1])
    return old


@contract(r'^(Atomic|std::sync::atomic::Atomic(Bool|Usize|U32|U64)?)(::<.*>)?::(get_mut|into_inner|as_ptr)$', 3)
def c_atomic_get_mut(m, st, f, a):
    # &mut self / self: exclusive access, no schedule point
    if f.endswith('get_mut'): return Ref(a[0].cell, a[0].path + (0,))
    if f.endswith('into_inner'): return a[0].f[0]
    raise Inconclusive('Atomic::as_ptr is not modelled')


@contract(r'^(Atomic|std::sync::atomic::Atomic(Bool|Usize|U32|U64)?)(::<.*>)?::(compare_exchange|compare_exchange_weak)$', 3)
def c_atomic_cas(m, st, f, a):
    _sched(m, st, 'rmw', a[0])
    c = sv(a[0]); old = c.f[0]
    if isinstance(old, IntV): same = binop('Eq', old, a[1])
    elif isinstance(old, bool) and isinstance(a[1], bool): same = old == a[1]
    else: same = (old if not isinstance(old, bool) else z3.BoolVal(old)) == (a[1] if not isinstance(a[1], bool) else z3.BoolVal(a[1]))
    if bool_val(m, st, same):
        c.f[0] = a[2]; return ok(old)
    return err(old)


# ---------------------------------------------------------------------------------------------- tuples / enums: Ord, PartialEq, Clone, Hash
def _cmp_vals(m, st, x, y):
    """-1/0/1 (forks on symbolic data)"""
    x, y = sv(x), sv(y)
    if isinstance(x, IntV):
        if bool_val(m, st, binop('Lt', x, y)): return -1
        if bool_val(m, st, binop('Eq', x, y)): return 0
        return 1
    if isinstance(x, bool) or isinstance(x, z3.BoolRef):
        bx, by = bool_val(m, st, x), bool_val(m, st, y)
        return (bx > by) - (bx < by)
    if isinstance(x, Enum):
        dx, dy = disc_of(m, st, x), disc_of(m, st, y)
        if dx != dy: return -1 if dx < dy else 1
        px, py = x.payload.get(dx), y.payload.get(dy)
        if px is None or not px.f: return 0
        return _cmp_vals(m, st, px, py)
    if isinstance(x, Agg):
        for p, q in zip(x.f, y.f):
            c = _cmp_vals(m, st, p, q)
            if c: return c
        return (len(x.f) > len(y.f)) - (len(x.f) < len(y.f))
    if isinstance(x, StrV):
        for i in range(min(x.len, y.len)):
            bx, by = x.byte(i), y.byte(i)
            c = _cmp_vals(m, st, IntV(bx, 'u8'), IntV(by, 'u8'))
            if c: return c
        return (x.len > y.len) - (x.len < y.len)
    raise Inconclusive('comparison of %r' % (x,))


@contract(r'^<\(.*\) as (Ord|PartialOrd)>::(cmp|partial_cmp)$|^<(ReplacementEnforce|std::cmp::Ordering) as (Ord|PartialOrd)>::(cmp|partial_cmp)$', 3)
def c_tuple_cmp(m, st, f, a):
    c = _cmp_vals(m, st, a[0], a[1])
    e = Enum('Ordering', c, {})
    return some(e) if 'partial_cmp' in f else e


@contract(r'^<\(.*\) as PartialOrd>::(lt|le|gt|ge)$|^<(ReplacementEnforce|std::cmp::Ordering) as PartialOrd>::(lt|le|gt|ge)$', 3)
def c_tuple_rel(m, st, f, a):
    c = _cmp_vals(m, st, a[0], a[1])
    op = f.rsplit('::', 1)[1]
    return {'lt': c < 0, 'le': c <= 0, 'gt': c > 0, 'ge': c >= 0}[op]


def _eq_vals(m, st, x, y):
    x, y = sv(x), sv(y)
    if isinstance(x, IntV): return binop('Eq', x, y)
    if isinstance(x, (bool, z3.BoolRef)): return binop('Eq', x, y)
    if isinstance(x, StrV):
        if not isinstance(y, StrV): y = as_str(y)
        return str_eq(x, y)
    if isinstance(x, RopeV): return str_eq(x.flat(), y.flat() if isinstance(y, RopeV) else as_str(y))
    if isinstance(x, Enum):
        dx, dy = disc_of(m, st, x), disc_of(m, st, y)
        if dx != dy: return False
        px, py = x.payload.get(dx), y.payload.get(dy)
        if px is None or not px.f: return True
        return _eq_vals(m, st, px, py)
    if isinstance(x, Agg):
        if len(x.f) != len(y.f): return False
        return b_and(*[_eq_vals(m, st, p, q) for p, q in zip(x.f, y.f)])
    if isinstance(x, Unit): return True
    raise Inconclusive('structural equality of %r' % (x,))


@contract(r'^<(\(.*\)|std::option::Option<.*>|Option<.*>|ReplacementEnforce) as PartialEq(<.*>)?>::(eq|ne)$', 6)
def c_struct_eq(m, st, f, a):
    r = _eq_vals(m, st, a[0], a[1])
    return b_not(r) if f.endswith('::ne') else r


# ---------------------------------------------------------------------------------------------- sorting
class SortFrame(Native):
    """insertion sort driven by the caller's comparison closure (stable). For *_unstable_* sorts equal elements are
    deliberately reordered (swapped): the API leaves their order unspecified, so code relying on it is reported."""

    def __init__(self, items, clo, mode, stable, ret, finish):
        self.items, self.clo, self.mode, self.stable, self.ret, self.finish = items, clo, mode, stable, ret, finish
        self.i, self.j, self.wait, self.keys = 1, 1, None, None
        self.target = None            # in-place sorts: reference to the slice being sorted

    def step(self, m, st):
        if self.items is None: raise Inconclusive('SortFrame stepped before its input was collected')
        if self.mode == 'key' and self.keys is None:
            self.keys = []; self.wait = 'key'
        if self.wait == 'key':
            if len(self.keys) < len(self.items):
                m.invoke(st, self.clo, [Ref(Cell(self.items[len(self.keys)]))], ('native',)); return
            self.wait = None
        n = len(self.items)
        if self.i >= n:
            st.frames.pop()
            tgt = getattr(self, 'target', None)
            if tgt is not None:
                # in-place sort: the target reference is part of the frame and is re-homed when the state is cloned at a fork
                # (a python closure over the reference would keep pointing into the state before the fork)
                sv(tgt).f[:] = self.items; m.deliver(st, self.ret, UNIT); return
            m.deliver(st, self.ret, self.finish(self.items)); return
        if self.j == 0:
            self.i += 1; self.j = self.i; return
        a, b = self.items[self.j - 1], self.items[self.j]
        if self.mode == 'key':
            c = _cmp_vals(m, st, self.keys[self.j - 1], self.keys[self.j]); self.after(c)
        elif self.mode == 'ord':
            c = _cmp_vals(m, st, a, b); self.after(c)
        else:
            self.wait = 'cmp'
            m.invoke(st, self.clo, [Ref(Cell(a)), Ref(Cell(b))], ('native',))

    def after(self, c):
        if c > 0 or (c == 0 and not self.stable):
            j = self.j
            self.items[j - 1], self.items[j] = self.items[j], self.items[j - 1]
            if self.keys is not None: self.keys[j - 1], self.keys[j] = self.keys[j], self.keys[j - 1]
            self.j -= 1
        else:
            self.i += 1; self.j = self.i

    def recv(self, m, st, v):
        if self.items is None:
            self.items = list(v.f); return
        if self.wait == 'key':
            self.keys.append(v); return
        self.wait = None
        c = v.disc if isinstance(v.disc, int) else to_signed(m.concretize(st, IntV(v.disc, 'i8'), [255, 0, 1]), 'i8')
        self.after(c)


def _sort(m, st, f, src, clo, mode, stable, finish, in_place_ref=None):
    fr = SortFrame(None, clo, mode, stable, m.cur_ret, finish)
    st.frames.append(fr)
    v = sv(src) if isinstance(src, Ref) else src
    if isinstance(v, Agg) and v.ty != 'closure' and not isinstance(v, Iter):
        fr.items = list(v.f); return PUSHED
    if isinstance(v, Iter) and not v.ops and v.src is None:
        fr.items = v.items[v.pos:]; return PUSHED
    base = v if isinstance(v, Iter) else crate_iter(m, f, src)
    if base is None: raise Inconclusive('sort input %r' % (v,))
    st.frames.append(IterDriver(base, 'collect', None, ('native',)))
    return PUSHED


@contract(r'^<.* as Itertools>::(sorted_by|sorted_by_key|sorted|sorted_unstable_by|sorted_unstable_by_key|sorted_unstable)(::<.*)?$', 3)
def c_itertools_sorted(m, st, f, a):
    op = re.search(r'Itertools>::(\w+)', f).group(1)
    mode = 'key' if op.endswith('by_key') else ('cmp' if op.endswith('_by') else 'ord')
    return _sort(m, st, f, a[0], a[1] if len(a) > 1 else None, mode, 'unstable' not in op, lambda items: Iter(items))


@contract(r'^([a-z_]+::)*slice::<impl \[.*\]>::(sort_by|sort_by_key|sort|sort_unstable_by|sort_unstable_by_key|sort_unstable|sort_by_cached_key)(::<.*)?$', 3)
def c_slice_sort(m, st, f, a):
    op = re.search(r'::(sort\w*)', f).group(1)
    mode = 'key' if op.endswith('_key') else ('cmp' if op.endswith('_by') else 'ord')
    v, r = seq_of(a[0])
    res = _sort(m, st, f, a[0], a[1] if len(a) > 1 else None, mode, 'unstable' not in op, None)
    for fr in reversed(st.frames):
        if isinstance(fr, SortFrame): fr.target = r; break
    return res


# ---------------------------------------------------------------------------------------------- more Vec / Rc
@contract(r'^<(Vec|VecDeque)<.*> as FromIterator<.*>>::from_iter::<', 3)
def c_vec_from_iter(m, st, f, a):
    it = a[0]
    v = sv(it) if isinstance(it, Ref) else it
    if isinstance(v, Iter):
        if not v.ops and v.src is None: return vec(v.items[v.pos:])
        return drive_iter(m, st, it, 'collect', None, f)
    if isinstance(v, Agg): return vec(list(v.f))
    ci = crate_iter(m, f, it)
    if ci is not None: return drive_iter(m, st, ci, 'collect', None, f)
    raise Inconclusive('Vec::from_iter of %r' % (v,))


@contract(r'^(Rc|Arc|std::rc::Rc|std::sync::Arc)::<.*>::make_mut$', 3)
def c_rc_make_mut(m, st, f, a):
    # clone-on-write: always move to a private copy (observationally equal to mutating in place when the Rc is unique)
    r = a[0]; rc = deref(r)
    new = Ref(Cell(copy_val(deref(rc)), tag='heap'))
    store(r, new)
    return new


@contract(r'^(Rc|Arc)::<.*>::(ptr_eq)$', 3)
def c_rc_ptr_eq(m, st, f, a):
    x, y = deref(a[0]), deref(a[1])
    if not (isinstance(x, Ref) and isinstance(y, Ref)): x, y = a[0], a[1]
    return x.cell is y.cell and x.path == y.path


@contract(r'^Vec::<.*>::(insert)$', 3)
def c_vec_insert(m, st, f, a):
    v = sv(a[0]); k = _index_conc(m, st, a[1], len(v.f) + 1)
    if k > len(v.f): raise Panic('Vec::insert index out of bounds')
    v.f.insert(k, a[2]); return UNIT


@contract(r'^Vec::<.*>::(remove)$', 3)
def c_vec_remove(m, st, f, a):
    v = sv(a[0]); k = _index_conc(m, st, a[1], len(v.f))
    if k >= len(v.f): raise Panic('Vec::remove index out of bounds')
    return v.f.pop(k)


# ---------------------------------------------------------------------------------------------- RangeBounds
def _bound(kind, ref_or_none):
    i = {'Included': 0, 'Excluded': 1, 'Unbounded': 2}[kind]
    return Enum('Bound', i, {i: Agg([ref_or_none] if ref_or_none is not None else [])})


@contract(r'^<.* as RangeBounds<.*>>::(start_bound|end_bound)$', 3)
def c_range_bounds(m, st, f, a):
    r = a[0]; v = deref(r)
    kind = _range_kind(f.split(' as RangeBounds')[0] + '<') if 'Range' in f.split(' as RangeBounds')[0] else (v.ty or '')
    start = f.endswith('start_bound')
    fld = lambda k: Ref(r.cell, r.path + (k,))
    if kind == 'Range': return _bound('Included', fld(0)) if start else _bound('Excluded', fld(1))
    if kind == 'RangeFrom': return _bound('Included', fld(0)) if start else _bound('Unbounded', None)
    if kind == 'RangeTo': return _bound('Unbounded', None) if start else _bound('Excluded', fld(0))
    if kind == 'RangeToInclusive': return _bound('Unbounded', None) if start else _bound('Included', fld(0))
    if kind == 'RangeInclusive': return _bound('Included', fld(0)) if start else _bound('Included', fld(1))
    if kind == 'RangeFull': return _bound('Unbounded', None)
    raise Inconclusive('RangeBounds of ' + f)


# ---------------------------------------------------------------------------------------------- DashMap (finite map key -> heap cell)
# insert on an occupied key replaces the cell and FREES the old one: references obtained earlier (cached_source.rs extends
# their lifetime with a transmute) become dangling - reading through them is reported as use-after-free.
class DashMapV:
    rtype = 'DashMap'

    def __init__(self): self.entries = []; self.lock = None      # entries: [(key value, Cell)]

    def clone_with(self, cl):
        d = DashMapV(); d.entries = [(cl.val(k), cl.cell(c)) for k, c in self.entries]; d.lock = cl.val(self.lock); return d


def _dm(x):
    v = sv(x)
    if not isinstance(v, DashMapV): raise Inconclusive('expected a DashMap, got %r' % (v,))
    return v


def _dm_find(m, st, dm, key):
    for i, (k, c) in enumerate(dm.entries):
        if key_eq(m, st, k, key): return i
    return None


@contract(r'^<Arc<DashMap<.*>> as Default>::default$|^<DashMap<.*> as Default>::default$|^DashMap::<.*>::(new|default|with_hasher)$', 2)
def c_dm_default(m, st, f, a):
    d = DashMapV()
    return Ref(Cell(d, tag='heap')) if f.startswith('<Arc<') else d


@contract(r'^DashMap::<.*>::get::<', 2)
def c_dm_get(m, st, f, a):
    _sched(m, st, 'dm_get', a[0])
    dm = _dm(a[0]); i = _dm_find(m, st, dm, a[1])
    h = m.hooks.get('dm_guard')
    if i is None:
        if h:
            h(m, st, 'read', a[0], None)
            from .threads import dm_release
            dm_release(st, a[0], 'read')
        return none()
    if h: h(m, st, 'read', a[0], dm.entries[i][1])
    return some(Ref(dm.entries[i][1], (), meta=('dmref', 'read', a[0])))


@contract(r'^DashMap::<.*>::insert$', 2)
def c_dm_insert(m, st, f, a):
    _sched(m, st, 'dm_insert', a[0])
    dm = _dm(a[0]); i = _dm_find(m, st, dm, a[1])
    hg = m.hooks.get('dm_guard')
    if hg:
        hg(m, st, 'write', a[0], None)
        from .threads import dm_release
        dm_release(st, a[0], 'write')
    if i is None:
        dm.entries.append((copy_val(sv(a[1])) if isinstance(a[1], Ref) else a[1], Cell(a[2], tag='dmval'))); return none()
    old = dm.entries[i][1]
    dm.entries[i] = (dm.entries[i][0], Cell(a[2], tag='dmval'))
    h = m.hooks.get('dm_replace')
    if h: h(m, st, a[0], old)
    oldv = old.v
    old.freed = True
    return some(oldv)


@contract(r'^DashMap::<.*>::entry$', 2)
def c_dm_entry(m, st, f, a):
    _sched(m, st, 'dm_entry', a[0])
    dm = _dm(a[0]); i = _dm_find(m, st, dm, a[1])
    h = m.hooks.get('dm_guard')
    if i is None:
        if h: h(m, st, 'write', a[0], None)
        return Enum('Entry', 1, {1: Agg([Agg([a[0], a[1]], 'VacantEntry')])})
    if h: h(m, st, 'write', a[0], dm.entries[i][1])
    return Enum('Entry', 0, {0: Agg([Agg([a[0], Ref(dm.entries[i][1])], 'OccupiedEntry')])})


@contract(r'^(dashmap::)?(mapref::entry::)?OccupiedEntry::<.*>::(get|get_mut|into_ref)$', 2)
def c_dm_occ_get(m, st, f, a):
    e = sv(a[0])
    st.extra.setdefault('handed', set()).add(e.f[1].cell.id)      # a reference into the map leaves the entry API
    return e.f[1]


@contract(r'^(dashmap::)?(mapref::entry::)?VacantEntry::<.*>::insert$', 2)
def c_dm_vac_insert(m, st, f, a):
    _sched(m, st, 'dm_vacant_insert', a[0].f[0])
    e = a[0]; dm = _dm(e.f[0])
    i = _dm_find(m, st, dm, e.f[1])
    c = Cell(a[1], tag='dmval')
    if i is None: dm.entries.append((e.f[1], c))
    else:
        old = dm.entries[i][1]; dm.entries[i] = (dm.entries[i][0], c); old.freed = True
    return Ref(c, (), meta=('dmref', 'write', e.f[0]))


@contract(r'^<(dashmap::)?mapref::(one::Ref(Mut)?|entry::\w+)<.*> as Deref(Mut)?>::deref(_mut)?$', 2)
def c_dm_ref_deref(m, st, f, a):
    return deref(a[0])


@contract(r'^DashMap::<.*>::(len)$', 2)
def c_dm_len(m, st, f, a): return IntV(len(_dm(a[0]).entries), 'usize')


@contract(r'^DashMap::<.*>::(contains_key)::<', 2)
def c_dm_contains(m, st, f, a): return _dm_find(m, st, _dm(a[0]), a[1]) is not None


@contract(r'^DashMap::<.*>::(remove)::<', 2)
def c_dm_remove(m, st, f, a):
    dm = _dm(a[0]); i = _dm_find(m, st, dm, a[1])
    if i is None: return none()
    k, c = dm.entries.pop(i); c.freed = True
    h = m.hooks.get('dm_replace')
    if h: h(m, st, a[0], c)
    return some(Agg([k, c.v]))


@contract(r'^DashMap::<.*>::clear$', 2)
def c_dm_clear(m, st, f, a):
    dm = _dm(a[0])
    for k, c in dm.entries:
        c.freed = True
        h = m.hooks.get('dm_replace')
        if h: h(m, st, a[0], c)
    dm.entries[:] = []; return UNIT


# ---------------------------------------------------------------------------------------------- FxHasher (finish = uninterpreted function of the written stream)
@contract(r'^<(FxHasher|rustc_hash::FxHasher|DefaultHasher|std::collections::hash_map::DefaultHasher) as Default>::default$|^(FxHasher|DefaultHasher)::(default|new)$', 2)
def c_fxhasher_default(m, st, f, a):
    from .textmodel import HasherV
    return HasherV()


_finish_memo = {}


@contract(r'^<.* as Hasher>::finish$', 3)
def c_hasher_finish(m, st, f, a):
    """finish() is an uninterpreted INJECTIVE function of the written stream ('up to collisions of the 64-bit hasher')"""
    from .textmodel import HasherV
    h = sv(a[0])
    if not isinstance(h, HasherV): return NotImplemented
    key = repr(h.log)
    v = _finish_memo.get(key)
    if v is None:
        v = z3.BitVec('fxhash_%d' % len(_finish_memo), 64); _finish_memo[key] = v
    seen = st.extra.setdefault('finishes', [])
    from jobs.eqhash import log_eq
    for (v2, log2) in seen:
        if v2 is v: continue
        st.pc.append(zb(v == v2) == zb(log_eq(list(h.log), log2)))
    seen.append((v, list(h.log)))
    return IntV(v, 'u64')


@contract(r'^(dashmap::)?(mapref::entry::)?Entry::<.*>::or_insert$', 2)
def c_dm_entry_or_insert(m, st, f, a):
    e = a[0]; k = disc_of(m, st, e)
    ent = e.payload[k].f[0]
    if k == 0:
        return Ref(sv(ent).f[1].cell, (), meta=('dmref', 'write', ent.f[0]))
    _sched(m, st, 'dm_vacant_insert', ent.f[0])
    dm = _dm(ent.f[0]); c = Cell(a[1], tag='dmval')
    i = _dm_find(m, st, dm, ent.f[1])
    if i is None: dm.entries.append((ent.f[1], c))
    else:
        old = dm.entries[i][1]; dm.entries[i] = (dm.entries[i][0], c); old.freed = True
    return Ref(c, (), meta=('dmref', 'write', ent.f[0]))


@contract(r'^(dashmap::)?mapref::one::Ref(Mut)?::<.*>::(value|value_mut)$', 2)
def c_dm_ref_value(m, st, f, a):
    return deref(a[0])


@contract(r'^<(OnceLock|OnceCell|std::sync::OnceLock|std::cell::OnceCell)<.*> as PartialEq>::(eq|ne)$', 2)
def c_once_eq(m, st, f, a):
    """std: two OnceLocks are equal iff their contents (initialised or not) are equal"""
    r = _eq_vals(m, st, sv(a[0]).f[0], sv(a[1]).f[0])
    return b_not(r) if f.endswith('ne') else r


# ---------------------------------------------------------------------------------------------- Any / TypeId (type-id contract: equal iff same concrete type)
@contract(r'^<.* as Any>::type_id$|^TypeId::of::<', 3)
def c_type_id(m, st, f, a):
    if f.startswith('TypeId::of::<'):
        t = f[len('TypeId::of::<'):-1]
        from .mir import strip_generics
        return Opaque('TypeId', strip_generics(t).split('::')[-1])
    return Opaque('TypeId', m.runtime_type(a[0]))


@contract(r'^<TypeId as PartialEq>::(eq|ne)$', 3)
def c_type_id_eq(m, st, f, a):
    x, y = sv(a[0]), sv(a[1])
    r = x.data == y.data
    return (not r) if f.endswith('ne') else r


@contract(r"^<\(?dyn Any( \+ 'static)?( \+ Send)?( \+ Sync)?\)?>::(downcast_ref|is)::<", 3)
def c_downcast_ref(m, st, f, a):
    from .mir import strip_generics
    t = f[f.index('::<', f.index('>::')) + 3:-1]
    want = strip_generics(t).split('::')[-1]
    rt = m.runtime_type(a[0])
    x = a[0]
    while isinstance(x, Ref) and isinstance(deref(x), Ref): x = deref(x)
    if f.split('>::')[1].startswith('is'): return rt == want
    return some(x) if rt == want else none()


@contract(r'^<&(mut )?[A-Z][A-Za-z0-9_:<>\', ]* as PartialEq(<.*>)?>::(eq|ne)$', 7)
def c_ref_eq(m, st, f, a):
    """impl PartialEq<&B> for &A: compares the referents"""
    inner = re.sub(r'^<&(mut )?', '<', f)
    inner = re.sub(r' as PartialEq<&(mut )?', ' as PartialEq<', inner)
    x, y = deref(a[0]), deref(a[1])
    if not (isinstance(x, Ref) and isinstance(y, Ref)): return NotImplemented
    m.call_fn(st, inner, [x, y], m.cur_ret)
    return PUSHED


# ---------------------------------------------------------------------------------------------- std::path (text-level semantics on unix)
@contract(r'^(std::path::)?Path::new::<', 3)
def c_path_new(m, st, f, a): return as_str(a[0])


@contract(r'^(std::path::)?(Path|PathBuf)::join::<', 3)
def c_path_join(m, st, f, a):
    x, y = as_str(a[0]), as_str(a[1])
    if y.len and bool_val(m, st, byte_eq(y.byte(0), 47)): return y          # an absolute path replaces the base
    xb = list(x.bytes())
    if xb and not bool_val(m, st, byte_eq(xb[-1], 47)): xb.append(47)
    return StrV(tuple(xb) + tuple(y.bytes()))


@contract(r'^(std::path::)?(Path|PathBuf)::(to_string_lossy|as_os_str|to_str|display|as_path)$|^<(std::path::)?PathBuf as Deref>::deref$', 3)
def c_path_to_string(m, st, f, a):
    s = as_str(a[0])
    if f.endswith('to_string_lossy'): return Enum('Cow', 0, {0: Agg([s])})
    if f.endswith('to_str'): return some(s)
    return s


@contract(r'^DashMap::<.*>::iter$', 2)
def c_dm_iter(m, st, f, a):
    _sched(m, st, 'dm_iter', a[0])
    dm = _dm(a[0])
    return Iter([Agg([k, Ref(c)], 'RefMulti') for k, c in dm.entries])


@contract(r'^(dashmap::)?mapref::multiple::RefMulti(Mut)?::<.*>::(value|key|pair)$', 2)
def c_dm_refmulti(m, st, f, a):
    e = sv(a[0])
    if f.endswith('::key'): return Ref(Cell(e.f[0]))
    if f.endswith('::pair'): return Agg([Ref(Cell(e.f[0])), e.f[1]])
    return e.f[1]

//! Native confirmation of the C18 / C19 counterexample class "a cached map is replaced while a streaming caller still
//! holds references into it": two real threads, the interleaving is forced by an inner Source whose map() waits.
use rspack_sources::stream_chunks::StreamChunks;
use rspack_sources::*;
use serde_json::{json, Value};
use std::borrow::Cow;
use std::hash::{Hash, Hasher};
use std::sync::{Arc, Condvar, Mutex};

#[derive(Debug)]
struct Gate {
  state: Mutex<u8>, // 0 = idle, 1 = a thread is inside inner.map(), 2 = released
  cv: Condvar,
}

#[derive(Debug, Clone)]
struct Gated {
  inner: OriginalSource,
  gate: Arc<Gate>,
}

impl Hash for Gated {
  fn hash<H: Hasher>(&self, state: &mut H) {
    self.inner.hash(state)
  }
}
impl PartialEq for Gated {
  fn eq(&self, o: &Self) -> bool {
    self.inner == o.inner
  }
}
impl Eq for Gated {}

impl Source for Gated {
  fn source(&self) -> Cow<str> {
    self.inner.source()
  }
  fn rope(&self) -> Rope<'_> {
    self.inner.rope()
  }
  fn buffer(&self) -> Cow<[u8]> {
    self.inner.buffer()
  }
  fn size(&self) -> usize {
    self.inner.size()
  }
  fn map(&self, options: &MapOptions) -> Option<SourceMap> {
    // tell the other thread that the cache lookup has already missed, then wait until it has filled the cache
    let mut g = self.gate.state.lock().unwrap();
    if *g == 0 {
      *g = 1;
      self.gate.cv.notify_all();
      while *g != 2 {
        g = self.gate.cv.wait(g).unwrap();
      }
    }
    drop(g);
    self.inner.map(options)
  }
  fn to_writer(&self, w: &mut dyn std::io::Write) -> std::io::Result<()> {
    self.inner.to_writer(w)
  }
}

impl StreamChunks for Gated {
  fn stream_chunks<'a>(
    &'a self,
    options: &MapOptions,
    on_chunk: rspack_sources::stream_chunks::OnChunk<'_, 'a>,
    on_source: rspack_sources::stream_chunks::OnSource<'_, 'a>,
    on_name: rspack_sources::stream_chunks::OnName<'_, 'a>,
  ) -> rspack_sources::stream_chunks::GeneratedInfo {
    self.inner.stream_chunks(options, on_chunk, on_source, on_name)
  }
}

fn name_ptr(src: &CachedSource<Gated>) -> usize {
  // address of the source name handed to on_source: it points into the cached SourceMap on the replay path
  let mut p = 0usize;
  src.stream_chunks(
    &MapOptions::new(true),
    &mut |_, _| {},
    &mut |_, name, _| {
      if let Cow::Borrowed(s) = name {
        p = s.as_ptr() as usize;
      }
    },
    &mut |_, _| {},
  );
  p
}

pub fn run(v: &Value) -> Value {
  let text = v["tree"]["inner"]["text"].as_str().unwrap_or("a;b").to_string();
  let gate = Arc::new(Gate { state: Mutex::new(0), cv: Condvar::new() });
  let cached = Arc::new(CachedSource::new(Gated { inner: OriginalSource::new(text, "a.js"), gate: gate.clone() }));
  let c0 = cached.clone();
  let t0 = std::thread::spawn(move || c0.map(&MapOptions::new(true)).is_some());
  // wait until T0 is inside inner.map() (its cache lookup has missed)
  {
    let mut g = gate.state.lock().unwrap();
    while *g != 1 {
      g = gate.cv.wait(g).unwrap();
    }
  }
  let _ = name_ptr(&cached); // fills the cache
  let before = name_ptr(&cached); // replay path: borrows from the cached map
  {
    let mut g = gate.state.lock().unwrap();
    *g = 2;
    gate.cv.notify_all();
  }
  let _ = t0.join();
  let after = name_ptr(&cached);
  json!({"borrowed_name_ptr_before": before, "borrowed_name_ptr_after": after, "replaced": before != 0 && before != after})
}

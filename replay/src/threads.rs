//! Native confirmation of the C18 / C19 counterexample class "a cached map is replaced while a streaming caller still
//! holds references into it": two real threads, the interleaving is forced by an inner Source whose map() waits.
use rspack_sources::stream_chunks::StreamChunks;
use rspack_sources::*;
use serde_json::{json, Value};
use std::borrow::Cow;
use std::hash::{Hash, Hasher};
use std::sync::{Arc, Condvar, Mutex};

#[derive(Debug)]
struct Gate {
  state: Mutex<u8>, // 0 = idle, 1 = a thread is inside the gated inner call, 2 = released
  cv: Condvar,
  gate_map: bool,
  gate_stream: bool,
}

impl Gate {
  /// the FIRST caller announces itself and waits (at most 1.5 s) to be released; later callers pass
  fn pass(&self) {
    let mut g = self.state.lock().unwrap();
    if *g == 0 {
      *g = 1;
      self.cv.notify_all();
      let deadline = std::time::Instant::now() + std::time::Duration::from_millis(1500);
      while *g != 2 {
        let now = std::time::Instant::now();
        if now >= deadline {
          break;
        }
        let (g2, _) = self.cv.wait_timeout(g, deadline - now).unwrap();
        g = g2;
      }
    }
  }
}

#[derive(Debug, Clone)]
struct Gated {
  inner: OriginalSource,
  gate: Arc<Gate>,
}

impl Hash for Gated {
  fn hash<H: Hasher>(&self, state: &mut H) {
    self.inner.hash(state)
  }
}
impl PartialEq for Gated {
  fn eq(&self, o: &Self) -> bool {
    self.inner == o.inner
  }
}
impl Eq for Gated {}

impl Source for Gated {
  fn source(&self) -> Cow<str> {
    self.inner.source()
  }
  fn rope(&self) -> Rope<'_> {
    self.inner.rope()
  }
  fn buffer(&self) -> Cow<[u8]> {
    self.inner.buffer()
  }
  fn size(&self) -> usize {
    self.inner.size()
  }
  fn map(&self, options: &MapOptions) -> Option<SourceMap> {
    // tell the other thread that the cache lookup has already missed, then wait until it has filled the cache
    if self.gate.gate_map {
      self.gate.pass();
    }
    self.inner.map(options)
  }
  fn to_writer(&self, w: &mut dyn std::io::Write) -> std::io::Result<()> {
    self.inner.to_writer(w)
  }
}

impl StreamChunks for Gated {
  fn stream_chunks<'a>(
    &'a self,
    options: &MapOptions,
    on_chunk: rspack_sources::stream_chunks::OnChunk<'_, 'a>,
    on_source: rspack_sources::stream_chunks::OnSource<'_, 'a>,
    on_name: rspack_sources::stream_chunks::OnName<'_, 'a>,
  ) -> rspack_sources::stream_chunks::GeneratedInfo {
    if self.gate.gate_stream {
      self.gate.pass();
    }
    self.inner.stream_chunks(options, on_chunk, on_source, on_name)
  }
}

fn name_ptr(src: &CachedSource<Gated>) -> usize {
  // address of the source name handed to on_source: it points into the cached SourceMap on the replay path
  let mut p = 0usize;
  src.stream_chunks(
    &MapOptions::new(true),
    &mut |_, _| {},
    &mut |_, name, _| {
      if let Cow::Borrowed(s) = name {
        p = s.as_ptr() as usize;
      }
    },
    &mut |_, _| {},
  );
  p
}

fn scenario(text: &str, first_is_map: bool) -> Value {
  let gate = Arc::new(Gate { state: Mutex::new(0), cv: Condvar::new(), gate_map: first_is_map, gate_stream: !first_is_map });
  let cached = Arc::new(CachedSource::new(Gated { inner: OriginalSource::new(text.to_string(), "a.js"), gate: gate.clone() }));
  let c0 = cached.clone();
  let t0 = std::thread::spawn(move || {
    if first_is_map {
      c0.map(&MapOptions::new(true)).is_some()
    } else {
      name_ptr(&c0) != 0
    }
  });
  // wait (bounded) until T0 is inside the gated inner call: its cache lookup has missed
  {
    let mut g = gate.state.lock().unwrap();
    let deadline = std::time::Instant::now() + std::time::Duration::from_millis(1500);
    while *g != 1 {
      let now = std::time::Instant::now();
      if now >= deadline {
        break;
      }
      let (g2, _) = gate.cv.wait_timeout(g, deadline - now).unwrap();
      g = g2;
    }
  }
  let _ = name_ptr(&cached); // fills the cache (blocks on the shard lock while T0 holds the entry)
  let before = name_ptr(&cached); // replay path: borrows from the cached map
  {
    let mut g = gate.state.lock().unwrap();
    *g = 2;
    gate.cv.notify_all();
  }
  let _ = t0.join();
  let after = name_ptr(&cached);
  json!({"first_op": if first_is_map { "map" } else { "stream" }, "borrowed_name_ptr_before": before, "borrowed_name_ptr_after": after, "replaced": before != 0 && after != 0 && before != after})
}

/// lazy sort of ReplaceSource under two racing readers (no forcing point inside the library: stress, many rounds)
fn stress_replace() -> Value {
  let n = 60_000usize;
  let text: String = std::iter::repeat('a').take(n).collect();
  let mut mismatches = 0;
  for _round in 0..6 {
    let mut r = ReplaceSource::new(OriginalSource::new(text.clone(), "a.js"));
    for i in (0..n).rev() {
      r.insert(i as u32, "b", None);
    }
    let mut reference = String::with_capacity(2 * n);
    for _ in 0..n {
      reference.push('b');
      reference.push('a');
    }
    let r = Arc::new(r);
    let barrier = Arc::new(std::sync::Barrier::new(2));
    let hs: Vec<_> = (0..2)
      .map(|_| {
        let r = r.clone();
        let b = barrier.clone();
        std::thread::spawn(move || {
          b.wait();
          r.source().len()
        })
      })
      .collect();
    for h in hs {
      if h.join().map(|l| l != reference.len()).unwrap_or(true) {
        mismatches += 1;
      }
    }
  }
  // clones taken while other threads read an ALREADY SORTED source: a clone must behave like the original
  {
    use std::hash::{Hash, Hasher};
    struct Nop;
    impl Hasher for Nop {
      fn finish(&self) -> u64 {
        0
      }
      fn write(&mut self, _: &[u8]) {}
    }
    let n = 40_000usize;
    let text: String = std::iter::repeat('a').take(n).collect();
    let mut r = ReplaceSource::new(OriginalSource::new(text, "a.js"));
    for i in (0..n).rev() {
      r.insert(i as u32, "b", None);
    }
    let expect = r.source().len(); // sorts
    let r = Arc::new(r);
    let stop = Arc::new(std::sync::atomic::AtomicBool::new(false));
    let readers: Vec<_> = (0..2)
      .map(|_| {
        let r = r.clone();
        let stop = stop.clone();
        std::thread::spawn(move || {
          while !stop.load(std::sync::atomic::Ordering::SeqCst) {
            r.hash(&mut Nop);
          }
        })
      })
      .collect();
    for _ in 0..60 {
      let c = ReplaceSource::clone(&r);
      if c.source().len() != expect {
        mismatches += 1;
      }
    }
    stop.store(true, std::sync::atomic::Ordering::SeqCst);
    for h in readers {
      let _ = h.join();
    }
  }
  json!({"rounds": 6, "mismatches": mismatches})
}

pub fn run(v: &Value) -> Value {
  let text = v["tree"]["inner"]["text"].as_str().unwrap_or("a;b").to_string();
  let a = scenario(&text, true);
  let b = scenario(&text, false);
  let replaced = a["replaced"].as_bool().unwrap_or(false) || b["replaced"].as_bool().unwrap_or(false);
  let mut out = json!({"map_first": a, "stream_first": b, "replaced": replaced});
  if v["stress_replace"].as_bool().unwrap_or(false) {
    out["stress"] = stress_replace();
  }
  out
}

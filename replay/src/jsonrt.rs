//! C15: SourceMap JSON (real simd-json): to_json / to_writer / from_json / from_slice / from_reader
use rspack_sources::SourceMap;
use serde_json::{json, Value};
use std::panic::{catch_unwind, AssertUnwindSafe};

fn strs(v: &Value) -> Vec<String> {
  v.as_array().map(|a| a.iter().map(|x| x.as_str().unwrap_or("").to_string()).collect()).unwrap_or_default()
}

pub fn build(v: &Value) -> SourceMap {
  let mut m = SourceMap::new(v["mappings"].as_str().unwrap_or("").to_string(), strs(&v["sources"]), strs(&v["sourcesContent"]), strs(&v["names"]));
  if let Some(f) = v["file"].as_str() {
    m.set_file(Some(f.to_string()));
  }
  if let Some(f) = v["sourceRoot"].as_str() {
    m.set_source_root(Some(f.to_string()));
  }
  if let Some(f) = v["debugId"].as_str() {
    m.set_debug_id(Some(f.to_string()));
  }
  m
}

pub fn fields(m: &SourceMap) -> Value {
  json!({"file": m.file(), "mappings": m.mappings(), "sources": m.sources(), "sourcesContent": m.sources_content(), "names": m.names(),
         "sourceRoot": m.source_root(), "debugId": m.get_debug_id()})
}

fn back(r: Result<SourceMap, rspack_sources::Error>) -> Value {
  match r {
    Ok(m) => json!({"ok": fields(&m)}),
    Err(e) => json!({"err": format!("{}", e)}),
  }
}

fn parse_all(bytes: &[u8]) -> Value {
  let mut o = json!({});
  let r = catch_unwind(AssertUnwindSafe(|| match std::str::from_utf8(bytes) {
    Ok(s) => back(SourceMap::from_json(s)),
    Err(_) => json!({"skipped": "not utf-8"}),
  }));
  o["from_json"] = r.unwrap_or_else(|e| json!({"panicked": crate::panic_msg(e)}));
  let r = catch_unwind(AssertUnwindSafe(|| back(SourceMap::from_slice(bytes))));
  o["from_slice"] = r.unwrap_or_else(|e| json!({"panicked": crate::panic_msg(e)}));
  let r = catch_unwind(AssertUnwindSafe(|| back(SourceMap::from_reader(bytes))));
  o["from_reader"] = r.unwrap_or_else(|e| json!({"panicked": crate::panic_msg(e)}));
  o
}

/// {"family":"json","map":{...}}
pub fn roundtrip(v: &Value) -> Value {
  let r = catch_unwind(AssertUnwindSafe(|| {
    let m = build(&v["map"]);
    let text = m.clone().to_json();
    let mut w: Vec<u8> = Vec::new();
    let wr = m.clone().to_writer(&mut w);
    let mut o = json!({"panicked": false, "same_value_eq": m == build(&v["map"])});
    match text {
      Ok(t) => {
        o["to_json"] = json!(t);
        let p = parse_all(t.as_bytes());
        o["from_json"] = p["from_json"].clone();
        o["from_slice"] = p["from_slice"].clone();
        o["from_reader"] = p["from_reader"].clone();
      }
      Err(e) => o["to_json_err"] = json!(format!("{}", e)),
    }
    match wr {
      Ok(()) => o["to_writer"] = json!(String::from_utf8_lossy(&w).to_string()),
      Err(e) => o["to_writer_err"] = json!(format!("{}", e)),
    }
    o
  }));
  r.unwrap_or_else(|e| json!({"panicked": true, "message": crate::panic_msg(e)}))
}

/// {"family":"jsondoc","text":"..."}
pub fn document(v: &Value) -> Value {
  let mut o = parse_all(v["text"].as_str().unwrap_or("").as_bytes());
  o["panicked"] = json!(false);
  o
}

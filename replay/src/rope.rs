//! Executes a rope construction program on the real Rope and records what every observer answers.
use rspack_sources::Rope;
use serde_json::{json, Value};
use std::panic::{catch_unwind, AssertUnwindSafe};

fn guard<T: serde::Serialize>(f: impl FnOnce() -> T) -> Value {
  match catch_unwind(AssertUnwindSafe(f)) {
    Ok(x) => json!({ "ok": x }),
    Err(e) => json!({ "panic": crate::panic_msg(e) }),
  }
}

pub fn run(v: &Value) -> Value {
  // pieces must outlive the ropes: leak them (a replay process is short-lived)
  let leak = |s: &str| -> &'static str { Box::leak(s.to_string().into_boxed_str()) };
  let mut regs: Vec<Rope<'static>> = Vec::new();
  let mut steps: Vec<Value> = Vec::new();
  for st in v["program"].as_array().unwrap() {
    let op = st[0].as_str().unwrap();
    let r = catch_unwind(AssertUnwindSafe(|| -> Option<Rope<'static>> {
      match op {
        "new" => Some(Rope::new()),
        "from" => Some(Rope::from(leak(st[1].as_str().unwrap()))),
        "from_iter" => Some(Rope::from_iter(st[1].as_array().unwrap().iter().map(|x| leak(x.as_str().unwrap())))),
        "clone" => Some(regs[st[1].as_u64().unwrap() as usize].clone()),
        _ => None,
      }
    }));
    match op {
      "new" | "from" | "from_iter" | "clone" => match r {
        Ok(Some(x)) => {
          regs.push(x);
          steps.push(json!("ok"));
        }
        _ => {
          steps.push(json!("panic"));
          return json!({"steps": steps, "aborted": true});
        }
      },
      "add" => {
        let i = st[1].as_u64().unwrap() as usize;
        let p = leak(st[2].as_str().unwrap());
        let mut r = regs[i].clone();
        match catch_unwind(AssertUnwindSafe(|| {
          r.add(p);
          r
        })) {
          Ok(x) => {
            regs[i] = x;
            steps.push(json!("ok"));
          }
          Err(_) => {
            steps.push(json!("panic"));
            return json!({"steps": steps, "aborted": true});
          }
        }
      }
      "append" => {
        let i = st[1].as_u64().unwrap() as usize;
        let o = regs[st[2].as_u64().unwrap() as usize].clone();
        let mut r = regs[i].clone();
        match catch_unwind(AssertUnwindSafe(|| {
          r.append(o);
          r
        })) {
          Ok(x) => {
            regs[i] = x;
            steps.push(json!("ok"));
          }
          Err(_) => {
            steps.push(json!("panic"));
            return json!({"steps": steps, "aborted": true});
          }
        }
      }
      "line" => {
        let i = st[1].as_u64().unwrap() as usize;
        let k = st[2].as_u64().unwrap() as usize;
        let src = regs[i].clone();
        match catch_unwind(AssertUnwindSafe(|| src.lines().nth(k).map(|l| l.clone()))) {
          Ok(Some(x)) => {
            // the line borrows nothing from `src` beyond the 'static pieces
            regs.push(x);
            steps.push(json!("ok"));
          }
          _ => {
            steps.push(json!("panic"));
            return json!({"steps": steps, "aborted": true});
          }
        }
      }
      "slice" => {
        let i = st[1].as_u64().unwrap() as usize;
        let a = st[2].as_u64().unwrap() as usize;
        let b = st[3].as_u64().unwrap() as usize;
        let src = regs[i].clone();
        let form = st.get(4).and_then(|v| v.as_str()).unwrap_or("range").to_string();
        match catch_unwind(AssertUnwindSafe(|| match form.as_str() {
          "to" => src.get_byte_slice(..b),
          "to_incl" => src.get_byte_slice(..=b),
          "from" => src.get_byte_slice(a..),
          "incl" => src.get_byte_slice(a..=b),
          _ => src.get_byte_slice(a..b),
        })) {
          Ok(Some(x)) => {
            regs.push(x);
            steps.push(json!("some"));
          }
          Ok(None) => {
            steps.push(json!("none"));
            // the symbolic run ends the path here as well
            return json!({"steps": steps, "aborted": false, "slice_none": true, "regs": observe(&regs)});
          }
          Err(e) => {
            steps.push(json!({ "panic": crate::panic_msg(e) }));
            return json!({"steps": steps, "aborted": true});
          }
        }
      }
      _ => {}
    }
  }
  json!({"steps": steps, "aborted": false, "regs": observe(&regs)})
}

fn observe(regs: &[Rope<'static>]) -> Value {
  let mut out = Vec::new();
  for r in regs {
    let n = guard(|| r.len());
    let len = n["ok"].as_u64().unwrap_or(0) as usize;
    let mut bytes = Vec::new();
    for i in 0..len + 2 {
      bytes.push(guard(|| r.get_byte(i)));
    }
    out.push(json!({
      "len": n,
      "is_empty": guard(|| r.is_empty()),
      "to_string": guard(|| r.to_string()),
      "to_bytes": guard(|| String::from_utf8_lossy(&r.to_bytes()).to_string()),
      "ends_nl": guard(|| r.ends_with('\n')),
      "ends_a": guard(|| r.ends_with('a')),
      "get_byte": bytes,
      "char_indices": guard(|| r.char_indices().map(|(i, c)| (i, c.to_string())).collect::<Vec<_>>()),
      "lines": guard(|| r.lines().map(|l| l.to_string()).collect::<Vec<_>>()),
      "lines_false": guard(|| {
        #[cfg(feature = "hooks")]
        {
          rspack_sources::verif_hooks::rope_lines(r, false)
        }
        #[cfg(not(feature = "hooks"))]
        {
          Vec::<String>::new()
        }
      }),
    }));
  }
  let mut pairs = Vec::new();
  for (i, a) in regs.iter().enumerate() {
    for (j, b) in regs.iter().enumerate() {
      let bs = b.to_string();
      pairs.push(json!({"a": i, "b": j, "eq": guard(|| a == b), "starts_with": guard(|| a.starts_with(b)), "eq_str": guard(|| *a == bs.as_str())}));
    }
  }
  json!({"each": out, "pairs": pairs})
}

//! Builds a real source tree from its JSON description and records what the public API shows:
//! source(), the chunk streams (both column settings; text-less mode through the `verif` hook) and map().
use rspack_sources::stream_chunks::StreamChunks;
use rspack_sources::*;
use serde_json::{json, Value};
use std::panic::{catch_unwind, AssertUnwindSafe};

pub fn build(t: &Value) -> BoxSource {
  let kind = t["kind"].as_str().unwrap();
  match kind {
    "orig" => OriginalSource::new(t["text"].as_str().unwrap(), t["name"].as_str().unwrap()).boxed(),
    "raw" => match t.get("bytes").and_then(|b| b.as_array()) {
      Some(b) => RawSource::from(b.iter().map(|x| x.as_u64().unwrap() as u8).collect::<Vec<u8>>()).boxed(),
      None => RawSource::from(t["text"].as_str().unwrap()).boxed(),
    },
    "rawstr" => RawStringSource::from(t["text"].as_str().unwrap()).boxed(),
    "rawbuf" => match t.get("bytes").and_then(|b| b.as_array()) {
      Some(b) => RawBufferSource::from(b.iter().map(|x| x.as_u64().unwrap() as u8).collect::<Vec<u8>>()).boxed(),
      None => RawBufferSource::from(t["text"].as_str().unwrap().as_bytes()).boxed(),
    },
    "concat" => {
      let ch: Vec<BoxSource> = t["children"].as_array().unwrap().iter().map(build).collect();
      ConcatSource::new(ch).boxed()
    }
    "concat_add" => {
      let mut c = ConcatSource::default();
      for (i, ch) in t["children"].as_array().unwrap().iter().enumerate() {
        // a typed (unboxed) ConcatSource child is flattened by add; everything else is added as built
        if ch["kind"].as_str() == Some("concat") || ch["kind"].as_str() == Some("concat_add") {
          let mut inner = ConcatSource::default();
          for g in ch["children"].as_array().unwrap() {
            inner.add(build(g));
          }
          c.add(inner);
        } else {
          c.add(build(ch));
        }
        // observers called right after this add (mutation after observation)
        if let Some(th) = t["then"][i.to_string().as_str()].as_array() {
          for h in th {
            match h.as_str().unwrap_or("") {
              "source" => {
                let _ = c.source();
              }
              "size" => {
                let _ = c.size();
              }
              "buffer" => {
                let _ = c.buffer();
              }
              "map" => {
                let _ = c.map(&MapOptions::default());
              }
              "hash" => {
                use std::hash::{Hash, Hasher};
                let mut hs = std::collections::hash_map::DefaultHasher::new();
                c.hash(&mut hs);
                let _ = hs.finish();
              }
              _ => {}
            }
          }
        }
      }
      c.boxed()
    }
    "boxed" => build(&t["inner"]).boxed(),
    "cached" => CachedSource::new(build(&t["inner"])).boxed(),
    "replace" => {
      let mut r = ReplaceSource::new(build(&t["inner"]));
      for rp in t["replacements"].as_array().unwrap() {
        let enforce = match rp["enforce"].as_u64().unwrap_or(1) {
          0 => ReplacementEnforce::Pre,
          2 => ReplacementEnforce::Post,
          _ => ReplacementEnforce::Normal,
        };
        r.replace_with_enforce(
          rp["start"].as_u64().unwrap() as u32,
          rp["end"].as_u64().unwrap() as u32,
          rp["content"].as_str().unwrap(),
          rp["name"].as_str(),
          enforce,
        );
        // observers called between mutating calls (C05 / C14 histories)
        if let Some(th) = rp["then"].as_array() {
          for h in th {
            match h.as_str().unwrap_or("") {
              "source" => {
                let _ = r.source();
              }
              "size" => {
                let _ = r.size();
              }
              "map" => {
                let _ = r.map(&MapOptions::default());
              }
              "hash" => {
                use std::hash::{Hash, Hasher};
                let mut h = std::collections::hash_map::DefaultHasher::new();
                r.hash(&mut h);
                let _ = h.finish();
              }
              "clone" => {
                // continue with a clone of the value built so far
                r = r.clone();
              }
              _ => {}
            }
          }
        }
      }
      r.boxed()
    }
    "sms" => {
      let m = &t["map"];
      let strs = |v: &Value| -> Vec<String> {
        v.as_array().map(|a| a.iter().map(|x| x.as_str().unwrap_or("").to_string()).collect()).unwrap_or_default()
      };
      let mut sm = SourceMap::new(
        m["mappings"].as_str().unwrap().to_string(),
        strs(&m["sources"]),
        strs(&m["sourcesContent"]),
        strs(&m["names"]),
      );
      if let Some(r) = m["sourceRoot"].as_str() {
        sm.set_source_root(Some(r.to_string()));
      }
      if let Some(r) = m["debugId"].as_str() {
        sm.set_debug_id(Some(r.to_string()));
      }
      let inner = if t.get("inner_map").map(|x| !x.is_null()).unwrap_or(false) {
        let im = &t["inner_map"];
        let mut ism = SourceMap::new(im["mappings"].as_str().unwrap().to_string(), strs(&im["sources"]), strs(&im["sourcesContent"]), strs(&im["names"]));
        if let Some(r) = im["sourceRoot"].as_str() {
          ism.set_source_root(Some(r.to_string()));
        }
        if let Some(r) = im["debugId"].as_str() {
          ism.set_debug_id(Some(r.to_string()));
        }
        Some(ism)
      } else {
        None
      };
      SourceMapSource::new(SourceMapSourceOptions {
        value: t["text"].as_str().unwrap().to_string(),
        name: t["name"].as_str().unwrap_or("x.js").to_string(),
        source_map: sm,
        original_source: t["original_source"].as_str().map(|s| s.to_string()),
        inner_source_map: inner,
        remove_original_source: t["remove_original_source"].as_bool().unwrap_or(false),
      })
      .boxed()
    }
    _ => panic!("unknown tree kind {}", kind),
  }
}

fn options(columns: bool, final_source: bool) -> MapOptions {
  #[cfg(feature = "hooks")]
  {
    rspack_sources::verif_hooks::map_options(columns, final_source)
  }
  #[cfg(not(feature = "hooks"))]
  {
    let _ = final_source;
    MapOptions::new(columns)
  }
}

pub fn stream(src: &BoxSource, columns: bool, final_source: bool) -> Value {
  let mut events: Vec<Value> = Vec::new();
  let ev = std::cell::RefCell::new(&mut events);
  let info = src.stream_chunks(
    &options(columns, final_source),
    &mut |chunk, mapping| {
      let o = mapping.original.as_ref().map(|o| json!([o.source_index, o.original_line, o.original_column, o.name_index]));
      ev.borrow_mut().push(json!(["chunk", chunk.map(|c| c.to_string()), mapping.generated_line, mapping.generated_column, o]));
    },
    &mut |i, name, content| {
      ev.borrow_mut().push(json!(["source", i, name.to_string(), content.map(|c| c.to_string())]));
    },
    &mut |i, name| {
      ev.borrow_mut().push(json!(["name", i, name.to_string()]));
    },
  );
  json!({"events": events, "end": [info.generated_line, info.generated_column]})
}

pub fn map_json(m: Option<SourceMap>) -> Value {
  match m {
    None => Value::Null,
    Some(m) => json!({
      "sourceRoot": m.source_root(),
      "debugId": m.get_debug_id(),
      "mappings": m.mappings(),
      "sources": m.sources(),
      "sourcesContent": m.sources_content(),
      "names": m.names(),
    }),
  }
}

pub fn observe(v: &Value) -> Value {
  let what: Vec<String> = v["what"].as_array().map(|a| a.iter().map(|x| x.as_str().unwrap().to_string()).collect()).unwrap_or_default();
  let r = catch_unwind(AssertUnwindSafe(|| {
    let mut src = build(&v["tree"]);
    // call history before the observations (C10 / C14): names as in jobs/streams.py
    if let Some(h) = v["history"].as_array() {
      for op in h {
        match op.as_str().unwrap_or("") {
          "map1" => {
            let _ = src.map(&MapOptions::new(true));
          }
          "map0" => {
            let _ = src.map(&MapOptions::new(false));
          }
          "c1f0" => {
            let _ = stream(&src, true, false);
          }
          "c0f0" => {
            let _ = stream(&src, false, false);
          }
          "c1f1" => {
            let _ = stream(&src, true, true);
          }
          "c0f1" => {
            let _ = stream(&src, false, true);
          }
          "source" => {
            let _ = src.source();
          }
          "size" => {
            let _ = src.size();
          }
          "buffer" => {
            let _ = src.buffer();
          }
          "hash" => {
            use std::hash::{Hash, Hasher};
            let mut h = std::collections::hash_map::DefaultHasher::new();
            src.hash(&mut h);
            let _ = h.finish();
          }
          "clone" => {
            src = src.clone();
          }
          _ => {}
        }
      }
    }
    let mut streams = serde_json::Map::new();
    let mut maps = serde_json::Map::new();
    let mut panics = serde_json::Map::new();
    let mut guard = |name: &str, f: &mut dyn FnMut() -> Value| -> Option<Value> {
      match catch_unwind(AssertUnwindSafe(|| f())) {
        Ok(x) => Some(x),
        Err(e) => {
          panics.insert(name.to_string(), json!(crate::panic_msg(e)));
          None
        }
      }
    };
    // observations are made in the order the counterexample lists them (cache state depends on it)
    let mut source: Option<Value> = None;
    let mut views = serde_json::Map::new();
    let order: Vec<String> = if what.is_empty() {
      ["source", "c1f0", "c0f0", "c1f1", "c0f1", "map1", "map0", "rope", "buffer", "size", "writer"].iter().map(|s| s.to_string()).collect()
    } else {
      what.clone()
    };
    for w in order.iter() {
      match w.as_str() {
        "source" => {
          source = guard("source", &mut || json!(src.source().to_string()));
        }
        "c1f0" | "c0f0" | "c1f1" | "c0f1" => {
          let c = &w[1..2] == "1";
          let f = &w[3..4] == "1";
          if let Some(x) = guard(w, &mut || stream(&src, c, f)) {
            streams.insert(w.to_string(), x);
          }
        }
        "map1" | "map0" => {
          let c = w == "map1";
          if let Some(x) = guard(w, &mut || map_json(src.map(&MapOptions::new(c)))) {
            maps.insert(if c { "c1".to_string() } else { "c0".to_string() }, x);
          }
        }
        "rope" => {
          if let Some(x) = guard("rope", &mut || json!(src.rope().to_string())) {
            views.insert("rope".into(), x);
          }
        
        }
        "buffer" => {
          if let Some(x) = guard("buffer", &mut || json!(String::from_utf8_lossy(&src.buffer()).to_string())) {
            views.insert("buffer".into(), x);
          }
          if let Some(x) = guard("buffer", &mut || json!(src.buffer().to_vec())) {
            views.insert("buffer_bytes".into(), x);
          }
        
        }
        "size" => {
          if let Some(x) = guard("size", &mut || json!(src.size())) {
            views.insert("size".into(), x);
          }
        
        }
        "writer" => {
          if let Some(x) = guard("writer", &mut || {
            let mut w: Vec<u8> = Vec::new();
            src.to_writer(&mut w).unwrap();
            json!({"s": String::from_utf8_lossy(&w).to_string(), "b": w})
          }) {
            views.insert("writer".into(), x["s"].clone());
            views.insert("writer_bytes".into(), x["b"].clone());
          }
        
        }
        "writerfail" => {
          let k = v["writer_limit"].as_u64().unwrap_or(0) as usize;
          if let Some(x) = guard("writerfail", &mut || {
            struct W {
              k: usize,
              buf: Vec<u8>,
            }
            impl std::io::Write for W {
              fn write(&mut self, b: &[u8]) -> std::io::Result<usize> {
                if self.buf.len() >= self.k && !b.is_empty() {
                  return Err(std::io::Error::new(std::io::ErrorKind::Other, "writer failed"));
                }
                let n = b.len().min(self.k - self.buf.len());
                self.buf.extend_from_slice(&b[..n]);
                Ok(n)
              }
              fn flush(&mut self) -> std::io::Result<()> {
                Ok(())
              }
            }
            let mut w = W { k, buf: Vec::new() };
            let r = src.to_writer(&mut w);
            json!({"written": String::from_utf8_lossy(&w.buf).to_string(), "written_bytes": w.buf, "err": r.is_err(), "k": k})
          }) {
            views.insert("writerfail".into(), x);
          }
        
        }
        _ => {}
      }
    }
    let mut subs = serde_json::Map::new();
    let t = &v["tree"];
    let mut sub_list: Vec<(String, &Value)> = Vec::new();
    match t["kind"].as_str().unwrap_or("") {
      "replace" | "cached" => sub_list.push(("inner".to_string(), &t["inner"])),
      "concat" | "concat_add" => {
        for (k, c) in t["children"].as_array().unwrap().iter().enumerate() {
          sub_list.push((format!("child{}", k), c));
        }
      }
      _ => {}
    }
    for (name, sp) in sub_list {
      let r = catch_unwind(AssertUnwindSafe(|| {
        let s = build(sp);
        json!({"source": s.source().to_string(), "streams": {"c1f0": stream(&s, true, false)}, "maps": {}})
      }));
      if let Ok(x) = r {
        subs.insert(name, x);
      }
    }
    let mut out = json!({"streams": streams, "maps": maps, "tree": v["tree"], "panics": panics, "subs": subs, "views": views});
    if let Some(s) = source {
      out["source"] = s;
    }
    if v.get("alt_tree").is_some() && !v["alt_tree"].is_null() {
      let mut v2 = v.clone();
      v2["tree"] = v["alt_tree"].clone();
      v2.as_object_mut().unwrap().remove("history");
      v2.as_object_mut().unwrap().remove("alt_tree");
      out["alt"] = observe(&v2);
      out["alt_kind"] = v["alt"].clone();
      out["alt_prop"] = v["alt_prop"].clone();
    }
    out
  }));
  match r {
    Ok(x) => x,
    Err(e) => json!({"panicked": true, "message": crate::panic_msg(e)}),
  }
}


fn apply_history(src: &BoxSource, h: Option<&Vec<Value>>) {
  if let Some(h) = h {
    for op in h {
      match op.as_str().unwrap_or("") {
        "map1" => {
          let _ = src.map(&MapOptions::new(true));
        }
        "map0" => {
          let _ = src.map(&MapOptions::new(false));
        }
        "c1f0" => {
          let _ = stream(src, true, false);
        }
        "c0f0" => {
          let _ = stream(src, false, false);
        }
        "source" => {
          let _ = src.source();
        }
        "size" => {
          let _ = src.size();
        }
        "buffer" => {
          let _ = src.buffer();
        }
        "rope" => {
          let _ = src.rope().len();
        }
        "hash" => {
          let _ = hash_of(src);
        }
        _ => {}
      }
    }
  }
}

fn hash_of(src: &BoxSource) -> u64 {
  use std::hash::{Hash, Hasher};
  let mut h = std::collections::hash_map::DefaultHasher::new();
  src.hash(&mut h);
  h.finish()
}

/// C14 / C20: two trees, an observer history on the first, then ==, hashes, clone.
pub fn eqhash(v: &Value) -> Value {
  let r = catch_unwind(AssertUnwindSafe(|| {
    let a = build(&v["a"]);
    let b = build(&v["b"]);
    if v["relation"].as_str() == Some("stable") {
      // equality and hashes before and after an observer history on both values
      let ab0 = a == b.clone();
      let (ha0, hb0) = (hash_of(&a), hash_of(&b));
      apply_history(&a, v["history"].as_array());
      apply_history(&b, v["history_b"].as_array());
      let ab1 = a == b.clone();
      let ba1 = b == a.clone();
      let (ha1, hb1) = (hash_of(&a), hash_of(&b));
      return json!({"ab0": ab0, "ab1": ab1, "ba1": ba1, "hash_a0": ha0.to_string(), "hash_b0": hb0.to_string(), "hash_a1": ha1.to_string(), "hash_b1": hb1.to_string()});
    }
    apply_history(&a, v["history"].as_array());
    let ab = a == b.clone();
    let ba = b == a.clone();
    let ha = hash_of(&a);
    let hb = hash_of(&b);
    // a clone of the VALUE (not of the Arc handle)
    let c: BoxSource = std::sync::Arc::from(dyn_clone::clone_box(a.as_ref()));
    let ca = c == a.clone();
    let hc = hash_of(&c);
    let obs = |x: &BoxSource| {
      json!({"source": x.source().to_string(), "views": {"size": x.size()},
             "maps": {"c1": map_json(x.map(&MapOptions::new(true)))},
             "streams": {"c1f0": stream(x, true, false)}})
    };
    // a (after its history) first, then the untouched b
    let oa = obs(&a);
    let ob = obs(&b);
    json!({"ab": ab, "ba": ba, "hash_a": ha.to_string(), "hash_b": hb.to_string(), "clone_eq": ca, "hash_clone": hc.to_string(),
           "source_a": a.source().to_string(), "source_b": b.source().to_string(), "source_clone": c.source().to_string(), "obs_a": oa, "obs_b": ob})
  }));
  match r {
    Ok(x) => x,
    Err(e) => json!({"panicked": true, "message": crate::panic_msg(e)}),
  }
}

//! Native replay of solver counterexamples against the real crate (public API only unless built with the `verif` hooks).
//! usage: verif_replay <file.json>  -> prints one JSON object with the observations; exit 0 always unless the input is malformed.
mod jsonrt;
mod rope;
mod threads;
mod tree;
use rspack_sources::*;
use serde_json::{json, Value};
use std::panic::{catch_unwind, AssertUnwindSafe};

fn mapping_of(v: &Value) -> Mapping {
  let a: Vec<u32> = v.as_array().unwrap().iter().map(|x| x.as_u64().unwrap() as u32).collect();
  Mapping {
    generated_line: a[0],
    generated_column: a[1],
    original: if a.len() >= 5 {
      Some(OriginalLocation {
        source_index: a[2],
        original_line: a[3],
        original_column: a[4],
        name_index: if a.len() >= 6 { Some(a[5]) } else { None },
      })
    } else {
      None
    },
  }
}

fn mapping_json(m: &Mapping) -> Value {
  let mut v = vec![json!(m.generated_line), json!(m.generated_column)];
  if let Some(o) = &m.original {
    v.push(json!(o.source_index));
    v.push(json!(o.original_line));
    v.push(json!(o.original_column));
    if let Some(n) = o.name_index {
      v.push(json!(n));
    }
  }
  Value::Array(v)
}

fn decode(s: &str) -> Value {
  let s = s.to_string();
  let r = catch_unwind(AssertUnwindSafe(|| {
    let map = SourceMap::new(s, Vec::<String>::new(), Vec::<String>::new(), Vec::<String>::new());
    decode_mappings(&map).map(|m| mapping_json(&m)).collect::<Vec<_>>()
  }));
  match r {
    Ok(v) => json!({"panicked": false, "decoded": v}),
    Err(e) => json!({"panicked": true, "message": panic_msg(e)}),
  }
}

pub fn panic_msg(e: Box<dyn std::any::Any + Send>) -> String {
  if let Some(s) = e.downcast_ref::<&str>() {
    s.to_string()
  } else if let Some(s) = e.downcast_ref::<String>() {
    s.clone()
  } else {
    "?".into()
  }
}

fn main() {
  let path = std::env::args().nth(1).expect("file");
  let v: Value = serde_json::from_str(&std::fs::read_to_string(path).unwrap()).unwrap();
  std::panic::set_hook(Box::new(|_| {}));
  let out = if v["family"].as_str() == Some("batch") {
    json!({"results": v["items"].as_array().unwrap().iter().map(one).collect::<Vec<_>>()})
  } else {
    one(&v)
  };
  println!("{}", out);
}

fn one(v: &Value) -> Value {
  let fam = v["family"].as_str().unwrap_or("");
  match fam {
    "decode" => decode(v["mappings"].as_str().unwrap()),
    "decode_bytes" => {
      let bs: Vec<u8> = v["bytes"].as_array().unwrap().iter().map(|x| x.as_u64().unwrap() as u8).collect();
      match String::from_utf8(bs) {
        Ok(s) => decode(&s),
        Err(_) => json!({"skipped": "not utf-8"}),
      }
    }
    "decoder_step" => {
      // a decoder state (value_pos = 5k, data_pos, ...) is reached by a prefix; only the default-prefix form is replayed
      let k = v["current_value_pos"].as_u64().unwrap() / 5;
      let mut s = String::new();
      for _ in 0..v["current_data_pos"].as_u64().unwrap_or(0).min(64) {
        s.push('A');
      }
      for _ in 0..k {
        s.push('g');
      }
      s.push(v["byte"].as_u64().unwrap() as u8 as char);
      let mut r = decode(&s);
      r["string"] = json!(s);
      r
    }
    "roundtrip" | "lines_only" => {
      let ms: Vec<Mapping> = v["mappings"].as_array().unwrap().iter().map(mapping_of).collect();
      let r = catch_unwind(AssertUnwindSafe(|| {
        let enc = encode_mappings(ms.clone().into_iter());
        let map = SourceMap::new(enc.clone(), Vec::<String>::new(), Vec::<String>::new(), Vec::<String>::new());
        let dec: Vec<Mapping> = decode_mappings(&map).collect();
        let re = encode_mappings(dec.clone().into_iter());
        (enc, dec, re)
      }));
      match r {
        Ok((enc, dec, re)) => json!({"panicked": false, "encoded": enc, "decoded": dec.iter().map(mapping_json).collect::<Vec<_>>(), "reencoded": re}),
        Err(e) => json!({"panicked": true, "message": panic_msg(e)}),
      }
    }
    "vlq" => {
      // encode_vlq is private: observe it through a one-segment encode: column a after a segment at column b
      let a = v["a"].as_u64().unwrap() as u32;
      let b = v["b"].as_u64().unwrap() as u32;
      let r = catch_unwind(AssertUnwindSafe(|| {
        let (lo, hi) = if a >= b { (b, a) } else { (a, b) };
        let ms = vec![
          Mapping { generated_line: 1, generated_column: lo, original: Some(OriginalLocation { source_index: 0, original_line: 1, original_column: 0, name_index: None }) },
          Mapping { generated_line: 1, generated_column: hi, original: Some(OriginalLocation { source_index: 0, original_line: 2, original_column: 0, name_index: None }) },
        ];
        encode_mappings(ms.into_iter())
      }));
      match r {
        Ok(s) => json!({"panicked": false, "encoded": s}),
        Err(e) => json!({"panicked": true, "message": panic_msg(e)}),
      }
    }
    "tree" => tree::observe(v),
    "rope" => rope::run(v),
    "with_indices" => {
      let i = v["i"].as_u64().unwrap_or(0) as usize;
      let j = v["j"].as_u64().unwrap_or(0) as usize;
      let r = catch_unwind(AssertUnwindSafe(|| {
        #[cfg(feature = "hooks")]
        {
          match v["pieces"].as_array() {
            Some(ps) => {
              let ps: Vec<&str> = ps.iter().map(|x| x.as_str().unwrap()).collect();
              rspack_sources::verif_hooks::with_indices_substring_rope(&ps, i, j)
            }
            None => rspack_sources::verif_hooks::with_indices_substring_str(v["text"].as_str().unwrap(), i, j),
          }
        }
        #[cfg(not(feature = "hooks"))]
        {
          String::new()
        }
      }));
      match r {
        Ok(s) => json!({"panicked": false, "substring": s}),
        Err(e) => json!({"panicked": true, "message": panic_msg(e)}),
      }
    }
    "eqhash" => tree::eqhash(v),
    "threads" => threads::run(v),
    "json" => jsonrt::roundtrip(v),
    "jsondoc" => jsonrt::document(v),
    _ => json!({"error": format!("unknown family {}", fam)}),
  }
}

import sys, json, time; sys.path.insert(0, '/verif')
from lib.props import *
from jobs import streams
from jobs.common import run_job
t = CCA(O('?'), CC(RS('!'), O('?', 'b.js')), RS('!'))
r = run_job(streams.tree_job, dict(jid='x', tree=t, props=['C06'], what=['source']))
print(r['status'], (r.get('reason') or '')[:2500], r['paths'])

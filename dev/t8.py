import sys, os, json
sys.path.insert(0,'/verif'); os.environ['VERIF_MIR_REUSE']='1'
from jobs import conc
from jobs.common import run_job
r = run_job(conc.conc_job, dict(jid='c', tree=json.loads(sys.argv[1]), progs=json.loads(sys.argv[2]), max_switches=int(sys.argv[3]) if len(sys.argv)>3 else 6))
print(json.dumps({k:v for k,v in r.items() if k not in ('items','contracts')}, default=str)[:3000])

import sys, os, json
sys.path.insert(0,'/verif'); os.environ['VERIF_MIR_REUSE']='1'
from jobs.common import *
from jobs import codec
import z3
idx = api.load('mir'); m = api.machine(idx)
def mp(a):
    return mk_mapping(idx, IntV(a[0],'u32'), IntV(a[1],'u32'), None if len(a)<5 else (IntV(a[2],'u32'),IntV(a[3],'u32'),IntV(a[4],'u32'), IntV(a[5],'u32') if len(a)>5 else None))
ms = json.loads(sys.argv[1])
st = State()
for kind, s, v in api.call(m, st, 'encode_mappings', [Iter([mp(a) for a in ms])]):
    print(kind, v)

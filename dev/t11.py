import sys, json, time, traceback; sys.path.insert(0, '/verif')
from lib.props import *
from jobs import streams
t = CC(CA(CC(O('x\n??'), O('c?', 'b.js'))), O('z', 'c.js'))
try:
    r = streams.tree_job('x', t, props=['C02','C03','C01'], history=['map1'], rope='real', what=['source','c1f0','c0f0','c1f1','c0f1','map1','map0'])
    print(r['status'], r.get('reason'), r['paths'], r['obligations'], r['discharged']); print(json.dumps(r['cex'][:1], default=str)[:1500])
except Exception:
    traceback.print_exc()

import sys, json, time; sys.path.insert(0, '/verif')
from jobs.common import *
from msx import api
import z3
idx = api.load('mir'); m = api.machine(idx)
st = State()
def arcstr(s): return Ref(Cell(mkstr(s), tag='heap'))
def arcvec(xs): return Ref(Cell(vec([mkstr(x) for x in xs]), tag='heap'))
def opt(name, s):
    return Enum('Option', z3.BitVec(name, 64), {1: Agg([arcstr(s)])})
sm = idx.mk('SourceMap', version=IntV(3, 'u8'), file=opt('d_file', 'f.js'), sources=arcvec(['a.js', '']), sources_content=arcvec(['', '']),
            names=arcvec(['n" ']), mappings=arcstr('AAAA'), source_root=opt('d_root', 'r/'), debug_id=opt('d_dbg', 'id'))
name = api.find_item(idx, '>::to_json')
print(name)
outs = api.call(m, st, name, [sm])
for kind, s2, v in outs:
    print(kind, v, s2.extra.get('json_texts'), [str(c) for c in s2.pc][-3:])
print('---- from_json')
fj = api.find_item(idx, '>::from_json', contains='389')
for txt in ['{"version":3,"file":"f.js","sources":["a.js",null],"names":[],"mappings":"AAAA","x":{"y":[1,2]},"sourceRoot":null}', '{"mappings":null}', '{"sources":[]}', '[]', '{"mappings":"A","mappings":"B"}', 'nonsense', '{"mappings":"A","names":[1]}']:
    st = State()
    outs = api.call(m, st, fj, [mkstr(txt)])
    for kind, s2, v in outs:
        print(txt[:40], '=>', kind, repr(v)[:300])

import sys, os, json
sys.path.insert(0,'/verif'); os.environ['VERIF_MIR_REUSE']='1'
from jobs import eqhash
from jobs.common import run_job
kw=json.loads(sys.argv[1])
r = run_job(eqhash.eqhash_job, dict(jid='e', **kw))
print(json.dumps({k:v for k,v in r.items() if k not in ('items','contracts')}, default=str)[:2500])

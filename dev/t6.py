import sys, os, json, time
sys.path.insert(0,'/verif'); os.environ['VERIF_MIR_REUSE']='1'
from jobs import streams
from jobs.common import run_job
tree = json.loads(sys.argv[1])
what = sys.argv[2].split(',') if len(sys.argv)>2 else ['source','c1f0']
r = run_job(streams.tree_job, dict(jid='t', tree=tree, what=what))
print(json.dumps({k:v for k,v in r.items() if k not in ('items','contracts')}, default=str)[:3000])

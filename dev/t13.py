import sys, json, time, traceback; sys.path.insert(0, '/verif')
from lib.props import *
from jobs import streams
from jobs.common import run_job
for t in SMS_WILD:
    t0=time.time()
    r = run_job(streams.tree_job, dict(jid=t[0], tree=t[1], props=['C01']))
    print(t[0], r['status'], (r.get('reason') or '')[:200], r['paths'], r['obligations'], r['discharged'], round(time.time()-t0,1))
    for c in r['cex'][:2]: print('   ', json.dumps(c, default=str)[:900])

import sys, os, json
sys.path.insert(0,'/verif'); os.environ['VERIF_MIR_REUSE']='1'
from jobs import rope
from jobs.common import run_job
r = run_job(rope.rope_job, dict(jid='r', program=json.loads(sys.argv[1]), observe=sys.argv[2].split(',')))
print(json.dumps({k:v for k,v in r.items() if k not in ('items','contracts')}, default=str)[:2500])

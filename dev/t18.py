import sys, json, time; sys.path.insert(0, '/verif')
from lib.props import *
from jobs import streams
from jobs.common import run_job
t = SM('abcdef\n', 'AAAA,?AAE,A,EAAE', ('a.js',))
r = run_job(streams.tree_job, dict(jid='x', tree=t, props=['C08'], what=['c1f0']))
print(r['status'], (r.get('reason') or '')[:600], r['paths'], r['obligations'], r['discharged']); print(json.dumps(r['cex'][:1], default=str)[:1200])

import sys, json, time; sys.path.insert(0, '/verif')
from lib.props import *
from jobs import streams
from jobs.common import run_job
t = CA(CC(RS('!'), O('\n\n')))
r = run_job(streams.tree_job, dict(jid='x', tree=t, props=['C13','C03'], history=['map1'], alt='uncached', alt_prop='C13', what=['map1','map0','c0f0','c1f0']))
print(r['status'], (r.get('reason') or '')[:600], r['paths'], r['obligations'], r['discharged']); print(json.dumps(r['cex'][:1], default=str)[:1500]); print(r['samples'][:2])

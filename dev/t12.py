import sys, json, time, traceback; sys.path.insert(0, '/verif')
from lib.props import *
from jobs import streams
t = [x for x in COMBINED_QUICK if 'next line passes' in x[0]][0][1]
r = streams.tree_job('x', t, props=['C09'])
print(r['status'], r.get('reason'), r['paths'], r['obligations'], r['discharged']); print(json.dumps(r['cex'][:1], default=str)[:1500]); print(json.dumps(r['samples'][:1])[:1500])

import sys, os, json
sys.path.insert(0,'/verif'); os.environ['VERIF_MIR_REUSE']='1'
from jobs.common import *
from jobs import codec
import z3
idx = api.load('mir'); m = api.machine(idx, loop_bound=40)
J = Job('x', m)
st = State()
vals, segs = codec.sym_mappings(idx, st, [1,4], 2, 1)
# pin to the cex
st.pc += [zz(segs[0][0])==2, zz(segs[1][0])==3]
for kind, s, v in api.call(m, st, 'encode_mappings', [Iter(list(vals))]):
    ok, mdl = m.check(s.pc)
    print(kind, v, [mval(mdl, b) for b in v.bytes()] if kind=='ret' else '', codec.segs_json(mdl, segs))

import sys, json, time; sys.path.insert(0, '/verif')
from jobs import codec
from jobs.common import run_job
for sk in ['1:7', '4:7111', '4:1171']:
    t0=time.time(); r = run_job(codec.decoder_format, dict(jid=sk, skeleton=sk)); print(sk, r['status'], (r.get('reason') or '')[:200], r['paths'], r['obligations'], r['discharged'], round(time.time()-t0,1)); sys.stdout.flush()

import sys, json, time; sys.path.insert(0, '/verif')
from jobs import jsonrt
from jobs.common import run_job
def show(r): print(r['id'], r['status'], (r.get('reason') or '')[:1500], r['paths'], r['obligations'], r['discharged'], r['wall_s'], r.get('witness'), json.dumps(r['cex'][:2])[:800], r['notes'][:3])
S = lambda s: {'sym': s}
show(run_job(jsonrt.roundtrip_job, dict(jid='rt1', spec={'mappings': 'AAAA', 'sources': ['a.js', 'b'], 'sourcesContent': ['', 'x'], 'names': ['n" '], 'file': S('f.js'), 'sourceRoot': S('r/'), 'debugId': S('id')})))
show(run_job(jsonrt.roundtrip_job, dict(jid='rt2', spec={'mappings': '', 'sources': ['a.js', 'b'], 'sourcesContent': ['', ''], 'names': [], 'file': S(''), 'sourceRoot': None, 'debugId': S('')})))
O = lambda v: {'opt': v}
show(run_job(jsonrt.document_job, dict(jid='doc1', members=[('mappings', 'AA', True), ('sources', [O('a'), O('b')], '?'), ('file', O('f'), '?'), ('extra', {'a': [1]}, '?')])))
show(run_job(jsonrt.tv_json, dict(jid='tv', n=40)))

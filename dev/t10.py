import sys, json, time; sys.path.insert(0, '/verif')
from lib.props import *
from jobs import streams
from jobs.common import run_job
t = CC(CA(CC(O('x\n??'), O('c?', 'b.js'))), O('z', 'c.js'))
t0=time.time()
r = run_job(streams.tree_job, dict(jid='x', tree=t, props=['C02','C03','C01'], history=['map1'], rope='real', what=['source','c1f0','c0f0','c1f1','c0f1','map1','map0']))
print(r['status'], r.get('reason'), r['paths'], r['obligations'], r['discharged'], round(time.time()-t0,1)); print(json.dumps(r['cex'][:1], default=str)[:1500]); print(r['notes'][:3])

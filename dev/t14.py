import sys, json, time, traceback; sys.path.insert(0, '/verif')
from lib.props import *
from jobs import streams
t = RP(RS('ab\ncd'), (Q, Q, 'X'), (Q, Q, ''))
r = streams.tree_job('x', t, props=['C05'], what=['source'])
print(r['status'], r.get('reason'), r['paths'], r['obligations'], r['discharged'])
for c in r['cex'][:4]: print(json.dumps(c['tree']['replacements'], default=str)[:300], c['oracle'][:300])

import sys, os, json, time
sys.path.insert(0,'/verif'); os.environ['VERIF_MIR_REUSE']='1'
from jobs import codec
from jobs.common import run_job
def show(r):
    print(json.dumps({k:v for k,v in r.items() if k not in ('items','contracts')}, default=str)[:1800], flush=True)
which = sys.argv[1]
if which=='vlq': show(run_job(codec.vlq_kernel, dict(jid='vlq')))
if which=='dstep': show(run_job(codec.decoder_step, dict(jid='dstep')))
if which=='dfmt': show(run_job(codec.decoder_format, dict(jid='dfmt', skeleton=sys.argv[2])))
if which=='rt': show(run_job(codec.roundtrip, dict(jid='rt', shape=json.loads(sys.argv[2]), bits=int(sys.argv[3]))))
if which=='lo': show(run_job(codec.lines_only, dict(jid='lo', shape=json.loads(sys.argv[2]))))
if which=='drun': show(run_job(codec.decoder_run, dict(jid='drun', skeleton=sys.argv[2])))
if which=='dbytes': show(run_job(codec.decoder_bytes, dict(jid='dbytes', length=int(sys.argv[2]))))

#!/bin/bash
# development aid: run one check against many seeds in parallel scratch worktrees /tmp/mx_0 .. /tmp/mx_7 (git worktrees of /repo)
# usage: matrix.sh <prop> <seed>...
pid=$1; shift
seeds=("$@")
for k in 0 1 2 3 4 5 6 7; do
  (
    i=$k
    while [ $i -lt ${#seeds[@]} ]; do
      VERIF_NPROC=2 /verif/tools/seedrun_wt.sh /tmp/mx_$k /verif/seeded/${seeds[$i]}/patch.diff $pid
      i=$((i+8))
    done
  ) &
done
wait

#!/usr/bin/env python3
"""Regenerates /verif/MANIFEST.json from lib/props.py (claimed properties) and the texts below."""
import json, sys, os
sys.path.insert(0, '/verif')
from lib import props

TECH = "symbolic execution of the crate's rustc MIR + z3 (bounded, path-exploring); counterexamples replayed on the native crate"
TEXT = {
 'C01': ("Bounded symbolic execution of the real streaming code (MIR of the leaf sources, ConcatSource, helpers) over source trees whose text bytes are symbolic: on every path the delivered chunks must reassemble to source(), each with its text. The solver decides all texts inside the bound at once, including the rare coincidences (empty children, line breaks on chunk borders).", "DESIGN.md 5 C01"),
 'C02': ("Same runs, position oracle: every chunk's reported (line, column) equals the true start of its text in the output, the returned end info equals the end of source(), and in text-less mode the same end info is returned and every reported position lies in the text - for all four (columns x final) streams.", "DESIGN.md 5 C02"),
 'C03': ("Same runs plus map(): the SourceMap is decoded with an independent v3 decoder and compared, at every character position (per line for columns=false), with the chunk stream an outside caller gets; map() is None exactly when no chunk is mapped. Found the nested-boxed-ConcatSource defect (fixed).", "DESIGN.md 5 C03"),
 'C04': ("Same runs, provenance oracle computed from the tree itself (independent of the crate's chunking): mapped segments start on characters that really come from the stated original location, original characters resolve to their own file and line, statement starts exactly, raw text unmapped, sources/sourcesContent exact, columns=false per line.", "DESIGN.md 5 C04"),
 'C05': ("ReplaceSource objects are built by running the crate's own constructor and replace_with_enforce from MIR with SYMBOLIC start/end; source() from the real code is compared on every path with an independent reference splice (order by start, end, enforce, insertion; clamping). Overlaps, nesting, equal keys and positions beyond the end are solver assignments.", "DESIGN.md 5 C05"),
 'C06': ("Tree jobs with the children / inner source observed on their own: in a ConcatSource every character keeps the (file, content, line, column, name) its child gives it; in a ReplaceSource every output character is compared with an independent re-statement of the rule (inner segment's file/line/name, column advanced only where the recorded content matches, replacement content at the location active at its start with its own or the inherited, translated, name). Found the untranslated-name defect (fixed).", "DESIGN.md 5 C06"),
 'C07': ("Tree jobs restricted to the content views: on every path rope() must render to source(), buffer() be its bytes, size() its length, to_writer() write exactly buffer(); a writer that fails after a symbolic number k of bytes must get its error back with only a prefix of buffer() written. ConcatSource's four loops over children and ReplaceSource's rope()/source() splices are interpreted from MIR.", "DESIGN.md 5 C07"),
 'C08': ("SourceMapSource leaves whose map is a mapping-string template with symbolic VLQ digits (assumed consistent with the text): the four stream_chunks_of_source_map_* functions, WithIndices and get_source are interpreted from MIR; on every path the attribution of every character (per line, names dropped, for columns=false) through the stream, through map() and through an enclosing ConcatSource must equal a lookup in the given map decoded by an independent decoder, with sourceRoot applied; declared sources/contents/names must be the map's.", "DESIGN.md 5 C08"),
 'C10': ("CachedSource (map, stream_chunks with both fill paths and the replay path, stream_and_get_source_and_map, clone, hash) is interpreted from MIR over real inner sources; the call history is symbolic - each slot's operation is picked by the solver - and after every history all observations are compared with the wrapped source alone on every path. A result cached under one option set being served for another, or a cache fill changing a later answer, is a satisfying assignment.", "DESIGN.md 5 C10"),
 'C11': ("Tree jobs: every stream announces source/name indices before use and densely from zero; every map() result is decoded with an independent decoder and must be strictly increasing, on lines >= 1, before the end of source(), with indices inside the tables and a base64/,/; alphabet. Codec jobs: the alphabet and ASCII-ness of every encoder output for all values in the bound.", "DESIGN.md 5 C11"),
 'C13': ("Pairs of equivalent compositions over the SAME symbolic text are built in one symbolic state (nested boxed vs flat ConcatSource; single-child / empty-children ConcatSource, boxing, ReplaceSource without replacements vs the wrapped source) and compared on every path: text, end info, per-position attribution through map() and through the chunk stream.", "DESIGN.md 5 C13"),
 'C12': ("Bounded symbolic execution of the real encoder/decoder MIR: decode(encode(M)) attributes every position as M, encode(decode(s)) == s, encode_vlq is the v3 VLQ spelling for all deltas < 2^30, the decoder equals an independent v3 semantics on shape-concrete strings with all digits symbolic, the lines-only encoder keeps the first mapped segment per line.", "DESIGN.md 5 C12"),
 'C16': ("rope.rs itself is interpreted from its MIR (the Rope contract used by the other stages is switched off): construction programs with symbolic piece content and symbolic slice bounds run through the real add/append/from_iter/get_byte_slice code; every observer of every resulting rope, and every pair for ==/starts_with, is compared by the solver with the flat byte string. This also discharges the 'Rope behaves as the flat string' contract the stream stages assume.", "DESIGN.md 5 C16"),
 'C19': ("Every unchecked slice/str operation is executed as its checked form and a failed precondition is a violation; WithIndices::substring runs with symbolic char indices (incl. usize::MAX) over multi-byte text; both encoders' from_utf8_unchecked get an all-ASCII obligation on every drain.", "DESIGN.md 5 C19"),
 'C17': ("Decoder: an inductive one-byte step from every decoder state satisfying a stated invariant (all 256 byte values, debug and release MIR) shows no panic for strings of any length < 2^31; plus exhaustive-symbolic short strings, malformed field counts and long continuation runs. Streaming of trees: every tree job treats a reachable panic as a violation. The JSON parser sentence is outside (simd-json).", "DESIGN.md 5 C17"),
}
NOTE = "Trusted: the nightly MIR dump of the working tree, the msx interpreter (validated concretely against the native crate), the std contracts listed in each evidence file, z3, and the native replay harness. Bounds and what lies outside them: evidence.coverage.bounds / outside_the_bound; parts of the property whose engine stage is not registered yet are named there and are NOT claimed."
NA_REASON = {
 'C15': "Both directions go through simd-json (run-time CPU dispatch to AVX2/SSE4.2 kernels): neither Kani nor the MIR interpreter can encode it, and replacing the library by a contract leaves nothing of the property to decide.",
}
plist = [json.loads(l) for l in open('/verif/properties.jsonl')]
checks, na = [], []
for p in plist:
    pid = p['id']
    if pid in props.PROPS:
        t = TEXT[pid]
        engines = sorted({j.get('engine', 'S') for j in props.jobs_for(pid, 'thorough', 0)})
        checks.append({"property_id": pid, "quick_cmd": "./check %s --tier quick" % pid, "thorough_cmd": "./check %s --tier thorough" % pid,
                       "evidence_file": "/verif/evidence/%s.json" % pid, "replay_cmd_template": "./check %s --replay {path}" % pid, "engine": '+'.join(engines),
                       "level_claimed": {"category": "model_checking", "text": t[0], "design_ref": t[1]}, "level_note": NOTE,
                       "technique": TECH if engines == ['S'] else TECH + "; Kani/CBMC (bounded model checking of the compiled crate) for the heap code"})
    else:
        na.append({"property_id": pid, "reason": NA_REASON.get(pid, "engine stage for this property is not built yet in this revision of /verif (DESIGN.md section 8 build order); it is not claimed on a weaker basis")})
hooks = [l.split()[0] for l in os.popen("git -C /repo log --format='%h %s' | grep -i 'verif hook'").read().strip().split('\n') if l]
m = {"version": 1, "setup_cmd": "./setup.sh",
     "hooks": {"guard": "cargo feature `verif` of rspack_sources", "enable": "cargo build --features verif (the replay crate's feature `hooks` and the Kani harness crate turn it on)",
               "baseline_off_cmd": "cd /repo && CARGO_NET_OFFLINE=true cargo test --workspace --no-fail-fast --offline", "source_commits": hooks, "add_only": True},
     "engines": [{"name": "S", "path": "/verif/msx", "serves_properties": sorted(props.PROPS), "kind_free_text": "symbolic executor for the nightly MIR text dump of /repo (Python + z3): path exploration with bit-vector semantics of the real code, contracts for std callees"},
                 {"name": "replay", "path": "/verif/replay", "serves_properties": sorted(props.PROPS), "kind_free_text": "native replay of solver counterexamples against the real crate (1.83 toolchain, dev and release); the same Python oracles judge symbolic paths and native runs"}],
     "checks": checks, "not_applicable": na,
     "notes": "Exit codes of ./check: 0 held on everything explored; 1 replay-confirmed violation (VIOLATION line); 2 the machinery could not conclude (never reported as success). Known findings: /verif/known_findings.json. Seeded changes used to test the checks: /verif/seeded."}
json.dump(m, open('/verif/MANIFEST.json', 'w'), indent=1)
print('claimed', [c['property_id'] for c in checks])

#!/bin/bash
# intake of a round-4 delivery (two mutants of one property) and a first run of the property's quick check against each,
# in the agent's scratch worktree. usage: round4.sh <prop>
p=$1; wt=/tmp/wt/${p}r4
export SEED_ROUND=4
mkdir -p /verif/out/round4
for i in 1 2; do
  k=$((6+i))
  /verif/tools/intake_seed.sh $p $wt $i $k || continue
  VERIF_NPROC=${VERIF_NPROC:-4} /verif/tools/seedrun_wt.sh $wt /verif/seeded/$p-m$k/patch.diff $p quick
done

#!/bin/bash
# development aid: run "<prop> <seed> [tier]" lines (stdin) in parallel over the scratch worktrees /tmp/mx_0 .. /tmp/mx_{W-1} (W = $MX_W, default 8)
mapfile -t lines
W=${MX_W:-8}
for k in $(seq 0 $((W-1))); do
  (
    i=$k
    while [ $i -lt ${#lines[@]} ]; do
      set -- ${lines[$i]}
      VERIF_NPROC=${MX_NPROC:-2} /verif/tools/seedrun_wt.sh /tmp/mx_$k /verif/seeded/$2/patch.diff $1 ${3:-quick}
      i=$((i+W))
    done
  ) &
done
wait

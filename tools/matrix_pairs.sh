#!/bin/bash
# development aid: run "<prop> <seed>" pairs (stdin, one per line) in parallel over the scratch worktrees /tmp/mx_0 .. /tmp/mx_7
mapfile -t lines
for k in 0 1 2 3 4 5 6 7; do
  (
    i=$k
    while [ $i -lt ${#lines[@]} ]; do
      set -- ${lines[$i]}
      VERIF_NPROC=2 /verif/tools/seedrun_wt.sh /tmp/mx_$k /verif/seeded/$2/patch.diff $1 ${3:-quick}
      i=$((i+8))
    done
  ) &
done
wait

#!/bin/bash
# full quick sweep on /repo itself (writes evidence); usage: sweep.sh [tier]
tier=${1:-quick}; mkdir -p /verif/out/sweep; cd /verif
for p in C12 C16 C15 C14 C20 C05 C13 C08 C09 C18 C19 C07 C10 C17 C04 C06 C02 C03 C11 C01; do
  s=$(date +%s); ./check $p --tier $tier > out/sweep/$p.log 2>&1; rc=$?; e=$(date +%s)
  echo "$p exit=$rc $((e-s))s $(tail -n 1 out/sweep/$p.log | cut -c1-160)"
done

#!/bin/bash
# Build an offline directory source under /verif/.vendor from the crates cached by the repo's
# own (1.83) cargo, so that Kani's cargo and `cargo +nightly` (other registry hash dir) can resolve
# /repo's lockfile without network. Idempotent.
set -euo pipefail
V=/verif/.vendor
SRC=$(ls -d ~/.cargo/registry/cache/*-d8f576cf6a597a10 | head -1)
mkdir -p "$V"
for c in "$SRC"/*.crate; do
  n=$(basename "$c" .crate)
  if [ ! -f "$V/$n/.cargo-checksum.json" ]; then
    rm -rf "$V/$n"
    tar -xzf "$c" -C "$V"
    sha=$(sha256sum "$c" | cut -d' ' -f1)
    printf '{"files":{},"package":"%s"}' "$sha" > "$V/$n/.cargo-checksum.json"
  fi
done
echo "vendored $(ls "$V" | wc -l) crates into $V"

#!/bin/bash
# Dump the MIR of /repo's current working tree.
#   usage: mirdump.sh <outdir>     -> <outdir>/mir.txt (overflow checks on), <outdir>/mir_rel.txt (off), <outdir>/smir.txt (stable-mir)
# A scratch copy of the sources is made under /tmp and removed afterwards; dependency build output is kept
# under /verif/.cache/mir-target-* (one target dir per dump flavour so the three run concurrently).
set -euo pipefail
OUT=$(realpath -m "$1"); mkdir -p "$OUT"
REPO=${VERIF_REPO:-/repo}
S=$(mktemp -d /tmp/verif-mir.XXXXXX)
trap 'rm -rf "$S"' EXIT
mkdir -p "$S/r" && cp -r "$REPO/src" "$REPO/Cargo.toml" "$REPO/Cargo.lock" "$S/r/"
[ -d "$REPO/benches" ] && cp -r "$REPO/benches" "$S/r/"
mkdir -p "$S/r/.cargo"
cat > "$S/r/.cargo/config.toml" <<EOC
[source.crates-io]
replace-with = "vendored"
[source.vendored]
directory = "/verif/.vendor"
[net]
offline = true
EOC
cd "$S/r"
export CARGO_NET_OFFLINE=true RUSTUP_TOOLCHAIN=nightly
FEAT=${VERIF_FEATURES:-}
run() { # name flags...
  local name=$1; shift
  flock /verif/.cache/mir-target-$name.lock cargo rustc --offline --lib $FEAT --target-dir /verif/.cache/mir-target-$name -- "$@" > "$OUT/$name.txt" 2> "$OUT/$name.err" || { echo "MIR dump $name failed"; tail -30 "$OUT/$name.err"; return 1; }
}
mkdir -p /verif/.cache
run mir -Zunpretty=mir -C debug-assertions=off -C overflow-checks=on &
P1=$!
run mir_rel -Zunpretty=mir -C debug-assertions=off -C overflow-checks=off &
P2=$!
run smir -Zunpretty=stable-mir -C debug-assertions=off -C overflow-checks=on &
P3=$!
wait $P1; wait $P2; wait $P3
wc -l "$OUT"/mir.txt "$OUT"/mir_rel.txt "$OUT"/smir.txt | tail -4

#!/bin/bash
# intake of a sub-agent's delivery: confirm in its scratch worktree, store under /verif/seeded/<prop>-m<k>, print the verdict.
# usage: intake_seed.sh <prop> <worktree> <mut number in deliver/> <k>
p=$1; wt=$2; i=$3; k=$4
md=$wt/deliver/mut$i
[ -f $md/patch.diff ] || { echo "$p mut$i: no patch"; exit 1; }
line=$(/verif/tools/confirm_seed.sh $wt $md)
echo "$line"
case "$line" in *"suite=ok demo_with=fail demo_without=pass"*) ;; *) echo "NOT CONFIRMED"; exit 1;; esac
d=/verif/seeded/$p-m$k; mkdir -p $d
cp $md/patch.diff $md/demo.rs $d/; cp $md/notes.md $d/ 2>/dev/null
python3 - $d $p $k "$(git -C $wt rev-parse --short HEAD)" <<'PY'
import sys, json
d,p,k,c=sys.argv[1:5]
try: notes=open(d+'/notes.md').read()[:1500]
except Exception: notes=''
json.dump({"id":"%s-m%s"%(p,k),"property":p,"base_commit":c,"round":int(__import__("os").environ.get("SEED_ROUND","2")),"needs_to_manifest":notes,
 "confirmed":{"how":"tools/confirm_seed.sh in a scratch worktree: git apply patch.diff; cargo test --offline (suite green); demo.rs as tests/verif_demo.rs fails; git checkout -- src; demo passes","suite_with_change":"ok","demo_with_change":"fail","demo_without_change":"pass"},
 "origin":"independent sub-agent given only the property text and a scratch worktree"},open(d+'/meta.json','w'),indent=1)
PY

#!/bin/bash
# run a registered check against a seeded change: apply to /repo, run, ALWAYS revert.
# usage: seedrun.sh <seed id> <property id> [quick|thorough]
seed=$1; pid=$2; tier=${3:-quick}
cd /verif
if ! git -C /repo diff --quiet; then echo "/repo has uncommitted changes - refusing"; exit 3; fi
trap 'git -C /repo checkout -q -- . ; git -C /repo clean -qfd src tests 2>/dev/null' EXIT
git -C /repo apply /verif/seeded/$seed/patch.diff || { echo "patch does not apply"; exit 3; }
./check $pid --tier $tier --no-evidence > /tmp/seedrun_${seed}_${pid}.log 2>&1
rc=$?
echo "seed=$seed check=$pid tier=$tier exit=$rc $(grep -c '^VIOLATION' /tmp/seedrun_${seed}_${pid}.log) violation lines; $(grep -m1 -A1 '^VIOLATION\|INCONCLUSIVE' /tmp/seedrun_${seed}_${pid}.log | tr '\n' ' ' | cut -c1-330)"

#!/bin/bash
# confirm a seeded change in its scratch worktree: suite passes with it, demo fails with it, demo passes without it
# usage: confirm_seed.sh <worktree> <mutdir>   -> prints one line "<mutdir> suite=<ok|FAIL> demo_with=<fail|PASS?> demo_without=<pass|FAIL?>"
wt=$1; md=$2
cd "$wt" || exit 2
export CARGO_NET_OFFLINE=true
git checkout -q -- . ; rm -f tests/verif_demo.rs
git apply "$md/patch.diff" || { echo "$md apply=FAILED"; exit 1; }
if cargo test --offline >/tmp/seed_suite_$$.log 2>&1; then suite=ok; else suite=FAIL; fi
cp "$md/demo.rs" tests/verif_demo.rs
if cargo test --offline --test verif_demo >/tmp/seed_demo1_$$.log 2>&1; then dw=PASS_unexpected; else dw=fail; fi
git checkout -q -- src
if cargo test --offline --test verif_demo >/tmp/seed_demo2_$$.log 2>&1; then dwo=pass; else dwo=FAIL_unexpected; fi
rm -f tests/verif_demo.rs /tmp/seed_*_$$.log
git checkout -q -- .
echo "$md suite=$suite demo_with=$dw demo_without=$dwo"

#!/bin/bash
# development aid: run a check against a seeded change applied in a SCRATCH WORKTREE (not /repo), so that several seeds can be
# tried in parallel. usage: seedrun_wt.sh <worktree> <patch.diff> <property id> [quick|thorough] [--only <job substring>]
wt=$1; patch=$2; pid=$3; tier=${4:-quick}; if [ $# -ge 4 ]; then shift 4; else shift $#; fi
cd /verif
git -C "$wt" checkout -q -- . ; git -C "$wt" apply "$patch" || { echo "patch does not apply"; exit 3; }
tag=$(basename "$(dirname "$patch")")
VERIF_REPO=$wt VERIF_NPROC=${VERIF_NPROC:-6} ./check $pid --tier $tier --no-evidence "$@" > /tmp/seedwt_${tag}_${pid}.log 2>&1
rc=$?
git -C "$wt" checkout -q -- .
echo "seed=$tag check=$pid tier=$tier exit=$rc $(grep -c '^VIOLATION' /tmp/seedwt_${tag}_${pid}.log) violation lines; $(grep -m1 -A1 '^VIOLATION\|INCONCLUSIVE' /tmp/seedwt_${tag}_${pid}.log | tr '\n' ' ' | cut -c1-330)"

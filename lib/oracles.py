"""Oracles over CONCRETE observations of a source tree (the same code judges a path of the symbolic run - where every
value the oracle looks at is determined by the path condition - and the native replay of a counterexample).

obs = { 'source': str,
        'streams': { 'c1f0'|'c0f0'|'c1f1'|'c0f1': {'events': [...], 'end': [line, col]} },
        'maps':    { 'c1'|'c0': None | {'mappings': str, 'sources': [...], 'sourcesContent': [...], 'names': [...]} },
        'tree':    spec (see jobs/streams.py) }
events: ['chunk', text|None, gl, gc, None|[si, ol, oc, ni|None]] | ['source', i, name, content|None] | ['name', i, name]
Each oracle returns a list of (property id, message)."""
from .confirm import v3_decode

B64 = set('ABCDEFGHIJKLMNOPQRSTUVWXYZabcdefghijklmnopqrstuvwxyz0123456789+/,;')


def positions(text):
    """(line, col) of every character, and the end position"""
    out, l, c = [], 1, 0
    for ch in text:
        out.append((l, c))
        if ch == '\n': l, c = l + 1, 0
        else: c += 1
    return out, (l, c)


def chunks_of(ev): return [e for e in ev if e[0] == 'chunk']


def c01(obs):
    v = []
    src = obs['source']
    for k in ('c1f0', 'c0f0'):
        s = obs['streams'].get(k)
        if s is None: continue
        texts = [e[1] for e in chunks_of(s['events'])]
        if any(t is None for t in texts):
            v.append(('C01', '%s: a chunk delivered to an outside caller carries no text' % k)); continue
        if ''.join(texts) != src:
            v.append(('C01', '%s: chunks reassemble to %r but source() is %r' % (k, ''.join(texts), src)))
    return v


def c02(obs):
    v = []
    src = obs['source']
    pos, end = positions(src)
    for k in ('c1f0', 'c0f0'):
        s = obs['streams'].get(k)
        if s is None: continue
        l, c = 1, 0
        for e in chunks_of(s['events']):
            if (e[2], e[3]) != (l, c):
                v.append(('C02', '%s: chunk %r reported at (%d,%d) but its text starts at (%d,%d)' % (k, e[1], e[2], e[3], l, c))); break
            for ch in (e[1] or ''):
                if ch == '\n': l, c = l + 1, 0
                else: c += 1
        if tuple(s['end']) != end:
            v.append(('C02', '%s: generated end info %r but source() ends at %r' % (k, tuple(s['end']), end)))
    linelen = {}
    for (l, c) in pos: linelen[l] = max(linelen.get(l, 0), c + 1)
    for k in ('c1f1', 'c0f1'):
        s = obs['streams'].get(k)
        if s is None: continue
        if tuple(s['end']) != end:
            v.append(('C02', '%s (text-less mode): generated end info %r but source() ends at %r' % (k, tuple(s['end']), end)))
        for e in chunks_of(s['events']):
            l, c = e[2], e[3]
            if not (1 <= l <= end[0] and c <= linelen.get(l, 0)) or (l, c) > end:
                v.append(('C02', '%s (text-less mode): reported position (%d,%d) is not a position of the text (end %r)' % (k, l, c, end))); break
    return v


def tables_of(ev):
    """announcement bookkeeping of one stream: returns (violations, sources{idx: (name, content)}, names{idx: name})"""
    v, srcs, names = [], {}, {}
    for e in ev:
        if e[0] == 'source':
            srcs[e[1]] = (e[2], e[3])
        elif e[0] == 'name':
            names[e[1]] = e[2]
        else:
            o = e[4]
            if o is not None:
                if o[0] not in srcs: v.append(('C11', 'chunk uses source index %d before it was announced' % o[0]))
                if o[3] is not None and o[3] not in names: v.append(('C11', 'chunk uses name index %d before it was announced' % o[3]))
    if sorted(srcs) != list(range(len(srcs))): v.append(('C11', 'announced source indices are not dense from zero: %r' % sorted(srcs)))
    if sorted(names) != list(range(len(names))): v.append(('C11', 'announced name indices are not dense from zero: %r' % sorted(names)))
    return v, srcs, names


def stream_attr(s):
    """per chunk start position -> attribution (file name, ol, oc, name) | None ; resolved through the announcements"""
    _, srcs, names = tables_of(s['events'])
    segs = []
    for e in chunks_of(s['events']):
        o = e[4]
        if o is None: a = None
        else: a = (srcs.get(o[0], ('?%d' % o[0], None))[0], o[1], o[2], None if o[3] is None else names.get(o[3], '?%d' % o[3]))
        segs.append((e[2], e[3], a, len(e[1]) if e[1] is not None else None))
    return segs


def with_root(root, name):
    if root is None or root == '': return name
    return root + name if root.endswith('/') else root + '/' + name


def map_segs(mp):
    if mp is None: return []
    segs = []
    for s in v3_decode(mp['mappings']):
        if len(s) == 2: segs.append((s[0], s[1], None))
        else:
            src = with_root(mp.get('sourceRoot'), mp['sources'][s[2]]) if 0 <= s[2] < len(mp['sources']) else '?%d' % s[2]
            nm = None
            if len(s) == 6: nm = mp['names'][s[5]] if 0 <= s[5] < len(mp['names']) else '?%d' % s[5]
            segs.append((s[0], s[1], (src, s[3], s[4], nm)))
    return segs


def lookup(segs, l, c):
    best = None
    for s in segs:
        if s[0] == l and s[1] <= c and (best is None or s[1] >= best[1]): best = s
    return None if best is None else best[2]


def c03(obs):
    v = []
    src = obs['source']
    pos, end = positions(src)
    # columns = true: every character position
    s, mp = obs['streams'].get('c1f0'), obs['maps'].get('c1', 'absent')
    if s is not None and mp != 'absent':
        st = stream_attr(s)
        msegs = map_segs(mp)
        for (l, c) in pos:
            a, b = lookup(st, l, c), lookup(msegs, l, c)
            if a != b:
                v.append(('C03', 'columns=true: position (%d,%d) is attributed to %r by the chunk stream but to %r by map() [mappings %r]' % (l, c, a, b, mp and mp['mappings']))); break
        mapped = any(x[2] is not None for x in st)
        if (mp is None) == mapped:
            v.append(('C03', 'columns=true: map() is %s although the chunk stream has %s mapped chunk' % ('None' if mp is None else 'Some', 'a' if mapped else 'no')))
    s, mp = obs['streams'].get('c0f0'), obs['maps'].get('c0', 'absent')
    if s is not None and mp != 'absent':
        st = stream_attr(s)
        msegs = map_segs(mp)
        for l in range(1, end[0] + 1):
            fa = next(((x[2][0], x[2][1]) for x in st if x[0] == l and x[2] is not None), None)
            fb = next(((x[2][0], x[2][1]) for x in msegs if x[0] == l and x[2] is not None), None)
            if fa != fb:
                v.append(('C03', 'columns=false: line %d is attributed to %r by the chunk stream but to %r by map() [mappings %r]' % (l, fa, fb, mp and mp['mappings']))); break
        mapped = any(x[2] is not None for x in st)
        if (mp is None) == mapped:
            v.append(('C03', 'columns=false: map() is %s although the chunk stream has %s mapped chunk' % ('None' if mp is None else 'Some', 'a' if mapped else 'no')))
    return v


def c11(obs):
    v = []
    for k, s in obs['streams'].items():
        vv, _, _ = tables_of(s['events'])
        v += [(p, '%s: %s' % (k, msg)) for p, msg in vv]
    _, end = positions(obs['source'])
    for k, mp in obs['maps'].items():
        if mp is None: continue
        if any(ch not in B64 for ch in mp['mappings']):
            v.append(('C11', '%s: mappings string has characters outside base64/,/;: %r' % (k, mp['mappings']))); continue
        segs = v3_decode(mp['mappings'])
        for a, b in zip(segs, segs[1:]):
            if (a[0], a[1]) >= (b[0], b[1]):
                v.append(('C11', '%s: segments not in strictly increasing generated position: %r then %r [%r]' % (k, a, b, mp['mappings']))); break
        for s in segs:
            if s[0] < 1 or (s[0], s[1]) >= end:
                v.append(('C11', '%s: segment %r is not before the end %r of source()' % (k, s, end))); break
            if len(s) >= 5 and not (0 <= s[2] < len(mp['sources'])):
                v.append(('C11', '%s: source index %d outside the sources table' % (k, s[2]))); break
            if len(s) == 6 and not (0 <= s[5] < len(mp['names'])):
                v.append(('C11', '%s: name index %d outside the names table' % (k, s[5]))); break
    return v


# ------------------------------------------------------------------------------------------ provenance (C04)
def provenance(tree):
    """ground truth: (text, [origin per char]) with origin None | (file, line, col); independent of the crate's chunking"""
    k = tree['kind']
    if k == 'orig':
        pos, _ = positions(tree['text'])
        return tree['text'], [(tree['name'], l, c) for (l, c) in pos]
    if k in ('raw', 'rawstr', 'rawbuf'):
        return tree['text'], [None] * len(tree['text'])
    if k in ('concat', 'concat_add'):
        t, o = '', []
        for ch in tree['children']:
            ct, co = provenance(ch); t += ct; o += co
        return t, o
    if k in ('boxed', 'cached'):
        return provenance(tree['inner'])
    if k == 'replace':
        it, io = provenance(tree['inner'])
        out_t, out_o, pos = '', [], 0
        reps = sorted(enumerate(tree['replacements']), key=lambda t: (t[1]['start'], t[1]['end'], t[1].get('enforce', 1), t[0]))
        for _, r in reps:
            s = min(r['start'], len(it)); e = min(r['end'], len(it))
            if s > pos:
                out_t += it[pos:s]; out_o += io[pos:s]; pos = s
            out_t += r['content']; out_o += ['repl'] * len(r['content'])
            pos = max(pos, e)
        out_t += it[pos:]; out_o += io[pos:]
        return out_t, out_o
    raise ValueError('provenance of ' + k)


def has_kind(tree, kinds):
    if tree['kind'] in kinds: return True
    for c in tree.get('children', []):
        if has_kind(c, kinds): return True
    return 'inner' in tree and has_kind(tree['inner'], kinds)


def originals(tree, acc=None):
    acc = {} if acc is None else acc
    if tree['kind'] == 'orig': acc.setdefault(tree['name'], tree['text'])
    for c in tree.get('children', []): originals(c, acc)
    if 'inner' in tree: originals(tree['inner'], acc)
    return acc


def stmt_starts(text):
    """indices of characters that begin a statement of an OriginalSource text (direct scan, independent of PotentialTokens)"""
    out = set()
    n = len(text)
    for p in range(n):
        if text[p] == '\n': continue
        if p == 0 or text[p - 1] == '\n':
            out.add(p); continue
        if text[p] in ';{} \r\t': continue
        q = p - 1
        seen = False
        while q >= 0 and text[q] in ';{} \r\t':
            if text[q] in ';{}': seen = True
            q -= 1
        # the run must be preceded (on the same line) by nothing or by ordinary text; a brace inside it starts the run
        if seen: out.add(p)
    return out


def c04(obs):
    v = []
    tree = obs.get('tree')
    if tree is None or has_kind(tree, ('sms',)): return v
    text, org = provenance(tree)
    if text != obs['source']: return v       # C05/C07 territory, not provenance
    pos, end = positions(text)
    mp = obs['maps'].get('c1', 'absent')
    if mp != 'absent':
        msegs = map_segs(mp)
        at = {p: i for i, p in enumerate(pos)}
        for (l, c, a) in msegs:
            if a is None: continue
            i = at.get((l, c))
            if i is None:
                v.append(('C04', 'mapped segment at (%d,%d) does not start on an output character' % (l, c))); break
            o = org[i]
            if o == 'repl': continue            # replacement content is a don't-care
            if o is None:
                v.append(('C04', 'raw text at (%d,%d) is mapped to %r' % (l, c, a))); break
            if (a[0], a[1], a[2]) != o:
                v.append(('C04', 'segment at (%d,%d) says %r but the character really comes from %r' % (l, c, a[:3], o))); break
        for i, (l, c) in enumerate(pos):
            o = org[i]
            a = lookup(msegs, l, c)
            if o is None and a is not None:
                v.append(('C04', 'raw character at (%d,%d) resolves to %r' % (l, c, a))); break
            if o is not None and o != 'repl' and text[i] != '\n':
                if a is None or a[0] != o[0] or a[1] != o[1] or a[2] > o[2]:
                    v.append(('C04', 'original character %r from %r at output (%d,%d) resolves to %r' % (text[i], o, l, c, a))); break
        # statement starts resolve exactly
        offs = 0
        for leaf_text, leaf_org in _leaves(tree, text, org):
            pass
        for i in _stmt_start_outputs(tree, text, org):
            l, c = pos[i]; a = lookup(msegs, l, c)
            if a is None or (a[0], a[1], a[2]) != org[i]:
                v.append(('C04', 'statement start %r from %r at output (%d,%d) resolves to %r, not exactly to itself' % (text[i], org[i], l, c, a))); break
        if mp is not None:
            want = originals(tree)
            used = {a[0] for (_, _, a) in msegs if a is not None}
            if len(set(mp['sources'])) != len(mp['sources']):
                v.append(('C04', 'sources table lists a file twice: %r' % (mp['sources'],)))
            for i, s in enumerate(mp['sources']):
                if s in want and (i >= len(mp['sourcesContent']) or mp['sourcesContent'][i] != want[s]):
                    v.append(('C04', 'sourcesContent of %r is %r, the file content is %r' % (s, mp['sourcesContent'][i] if i < len(mp['sourcesContent']) else None, want[s]))); break
            for s in used:
                if s not in want: v.append(('C04', 'a segment names the file %r which no OriginalSource of the tree has' % s)); break
    mp0 = obs['maps'].get('c0', 'absent')
    if mp0 != 'absent' and not has_kind(tree, ('replace',)):
        msegs = map_segs(mp0)
        for l in range(1, end[0] + 1):
            first = next((org[i] for i, p in enumerate(pos) if p[0] == l and org[i] is not None and org[i] != 'repl' and not (text[i] == '\n' and p[1] == 0 and _bare_newline(org, text, i))), None)
            got = next((x[2] for x in msegs if x[0] == l and x[2] is not None), None)
            exp = None if first is None else (first[0], first[1])
            if (None if got is None else (got[0], got[1])) != exp:
                v.append(('C04', 'columns=false: output line %d is attributed to %r, the first original text on it is %r' % (l, got, exp))); break
    return v


def _bare_newline(org, text, i):
    return False


def _leaves(tree, text, org):
    return []


def _stmt_start_outputs(tree, text, org):
    """output indices of surviving characters that begin a statement of their OriginalSource"""
    starts = {}
    for name, t in originals(tree).items():
        p, _ = positions(t)
        starts[name] = {p[i] for i in stmt_starts(t)}
    out = []
    for i, o in enumerate(org):
        if o is None or o == 'repl': continue
        if (o[1], o[2]) in starts.get(o[0], ()): out.append(i)
    return out


ALL = {'C01': c01, 'C02': c02, 'C03': c03, 'C04': c04, 'C11': c11}


def judge(obs, props=None):
    out = []
    for p, f in ALL.items():
        if props is not None and p not in props: continue
        try:
            out += f(obs)
        except Exception as e:
            out.append((p, 'oracle error: %r' % (e,)))
    return out


# ------------------------------------------------------------------------------------------ C06: composites preserve attribution
def char_attr(s, text):
    """attribution of every character of `text` by stream s (columns=true, normal mode): list of
    (file, content, ol, oc, name, chunk_start_index) | None, following chunk order (chunks reassemble to text)"""
    _, srcs, names = tables_of(s['events'])
    out = []
    for e in chunks_of(s['events']):
        o = e[4]
        start = len(out)
        if o is None: a = None
        else:
            sn = srcs.get(o[0], ('?%d' % o[0], None))
            a = (sn[0], sn[1], o[1], o[2], None if o[3] is None else names.get(o[3], '?%d' % o[3]))
        for _ in (e[1] or ''): out.append(None if a is None else a + (start,))
    return out


def content_matches(content, ol, oc, piece):
    """does line `ol` (1-based) of the recorded original content contain `piece` at column oc"""
    if content is None or ol < 1: return False
    lines = content.split('\n')
    # lines keep their terminators in the crate's split; compare on the line text including '\n'
    ls, cur = [], ''
    for ch in content:
        cur += ch
        if ch == '\n': ls.append(cur); cur = ''
    if cur: ls.append(cur)
    if ol - 1 >= len(ls): return False
    return ls[ol - 1][oc:].startswith(piece) if oc <= len(ls[ol - 1]) else piece == ''


def c06(obs):
    v = []
    tree = obs.get('tree'); subs = obs.get('subs') or {}
    if tree is None: return v
    outer = obs['streams'].get('c1f0')
    if outer is None: return v
    src = obs['source']
    oa = char_attr(outer, src)
    if len(oa) != len(src): return v          # C01 territory
    if tree['kind'] in ('concat', 'concat_add'):
        off = 0
        for k, ch in enumerate(tree['children']):
            sub = subs.get('child%d' % k)
            if sub is None: return v
            ct = sub['source']
            ca = char_attr(sub['streams']['c1f0'], ct)
            for i in range(len(ct)):
                a, b = ca[i], oa[off + i]
                if (None if a is None else a[:5]) != (None if b is None else b[:5]):
                    v.append(('C06', 'ConcatSource: character %d of child %d is attributed to %r by the child alone but to %r inside the concatenation' % (i, k, a and a[:5], b and b[:5]))); return v
            off += len(ct)
        # the same by generated POSITION: what the concatenation reports at the true position of every character of child k
        # (a child whose own end position is wrong shifts its successors)
        opos, _ = positions(src)
        ost = stream_attr(outer)
        off = 0
        for k, ch in enumerate(tree['children']):
            sub = subs['child%d' % k]; ct = sub['source']
            cpos, _ = positions(ct); cst = stream_attr(sub['streams']['c1f0'])
            for i in range(len(ct)):
                a = lookup(cst, cpos[i][0], cpos[i][1]); b = lookup(ost, opos[off + i][0], opos[off + i][1])
                if a != b:
                    v.append(('C06', 'ConcatSource: the character at output position %r (character %d of child %d) is attributed to %r by the child at its own position %r but to %r by the concatenation' % (opos[off + i], i, k, a, cpos[i], b))); return v
            off += len(ct)
    elif tree['kind'] == 'replace':
        sub = subs.get('inner')
        if sub is None: return v
        it = sub['source']
        ia = char_attr(sub['streams']['c1f0'], it)
        exp = replace_reference(tree, it, ia)
        if exp is None or len(exp) != len(oa): return v
        for i, (e, g) in enumerate(zip(exp, oa)):
            gg = None if g is None else g[:5]
            if e == 'any': continue
            if e != gg and not (e is not None and gg is not None and e[:4] == gg[:4] and e[4] == '*'):
                v.append(('C06', 'ReplaceSource: output character %d (%r) should be attributed to %r but the stream says %r' % (i, src[i], e, gg))); return v
    if tree['kind'] in ('concat', 'concat_add', 'replace') and not v:
        # the composite's attribution as its map() reports it: the stream compared above and map() must agree at every position
        # (the C03 relation, columns=true), so what the children attribute is preserved on both ways of asking
        v += [('C06', 'composite, through map(): ' + msg) for (_, msg) in c03(obs) if msg.startswith('columns=true: position')]
    return v


def replace_reference(tree, it, ia):
    """expected attribution (file, content, ol, oc, name) | None per OUTPUT character of a ReplaceSource, from the inner
    text `it`, the inner per-character attribution `ia` and the replacement list - an independent re-statement of C06"""
    n = len(it)
    reps = sorted(enumerate(tree['replacements']), key=lambda t: (t[1]['start'], t[1]['end'], t[1].get('enforce', 1), t[0]))
    out = []
    pos = 0                        # consumed inner text up to here
    cur_col = None
    def advance(a, piece):
        nonlocal cur_col
        if a is not None and piece and content_matches(a[1], a[2], cur_col, piece): cur_col += len(piece)
    def emit_inner(a_, b_):
        """inner text [a_, b_) survives: per inner chunk, piecewise"""
        p = a_
        while p < b_:
            st = chunk_start(ia, it, p); en = chunk_end(ia, it, p)
            enter_at(st, p)
            q = min(b_, en)
            a = ia[p]
            for _ in range(p, q): out.append(None if a is None else (a[0], a[1], a[2], cur_col, a[4]))
            advance(a, it[p:q])
            p = q
    def skip_inner(a_, b_):
        p = a_
        while p < b_:
            st = chunk_start(ia, it, p); en = chunk_end(ia, it, p)
            enter_at(st, p)
            q = min(b_, en)
            advance(ia[p], it[p:q])
            p = q
    track = {'chunk': None}
    def enter_at(st, p):
        nonlocal cur_col
        if track['chunk'] != st:
            track['chunk'] = st
            cur_col = None if ia[st] is None else ia[st][3]
            if p > st:      # we arrive in the middle of a chunk whose head was consumed by an earlier replacement range
                advance(ia[st], it[st:p])
    for _, r in reps:
        s = min(r['start'], n); e = min(r['end'], n)
        if s > pos:
            emit_inner(pos, s); pos = s
        # replacement content
        if s < n and r['start'] < n:
            st = chunk_start(ia, it, max(pos, s) if max(pos, s) < n else n - 1)
            p = max(pos, s)
            if p < n:
                enter_at(chunk_start(ia, it, p), p)
                a = ia[p]
            else: a = None
        else: a = None
        first = True
        for ln in split_lines(r['content']):
            for _ in ln:
                if a is None: out.append(None)
                else:
                    nm = (r.get('name') if r.get('name') is not None else a[4]) if first else None
                    out.append((a[0], a[1], a[2], cur_col, nm))
            first = False
        if e > pos:
            skip_inner(pos, e); pos = e
    if pos < n: emit_inner(pos, n)
    return out


def split_lines(t):
    ls, cur = [], ''
    for ch in t:
        cur += ch
        if ch == '\n': ls.append(cur); cur = ''
    if cur: ls.append(cur)
    return ls


def chunk_start(ia, it, p):
    a = ia[p]
    if a is not None: return a[5]
    q = p
    while q > 0 and ia[q - 1] is None and it[q - 1] != '\n': q -= 1
    return q


def chunk_end(ia, it, p):
    a = ia[p]
    q = p + 1
    if a is not None:
        while q < len(ia) and ia[q] is not None and ia[q][5] == a[5]: q += 1
        return q
    while q < len(ia) and ia[q] is None and it[q - 1] != '\n': q += 1
    return q


def c05(obs):
    tree = obs.get('tree')
    if tree is None or not has_kind(tree, ('replace',)) or has_kind(tree, ('sms',)): return []
    ref = provenance(tree)[0]
    v = []
    if obs.get('source') is not None and obs['source'] != ref:
        v.append(('C05', 'source() is %r but the reference replacement model gives %r' % (obs['source'], ref)))
    for k, val in (obs.get('views') or {}).items():
        if k in ('rope', 'buffer') and val != ref: v.append(('C05', '%s() is %r but the reference replacement model gives %r' % (k, val, ref)))
        if k == 'size' and val != len(ref.encode('utf-8')): v.append(('C05', 'size() is %d but the reference replacement model has %d bytes' % (val, len(ref.encode('utf-8')))))
    return v


def verbatim_root(tree):
    """map() of this tree is the map GIVEN to a SourceMapSource, handed back as it is"""
    t = tree
    while isinstance(t, dict) and t.get('kind') in ('boxed', 'cached'): t = t['inner']
    return isinstance(t, dict) and t.get('kind') == 'sms' and t.get('inner_map') is None


def attribution_table(o, verbatim=False):
    """per character attribution through map c1 (names resolved), per line through map c0, and through the streams"""
    src = o['source']; pos, end = positions(src)
    out = {}
    if 'c1' in o['maps']:
        ms = map_segs(o['maps']['c1']); out['map1'] = [lookup(ms, l, c) for (l, c) in pos]
    if 'c0' in o['maps']:
        ms = map_segs(o['maps']['c0'])
        # (file, line) of every character position resolved the ordinary way (greatest segment at or before it); for a
        # well-formed lines-only map (one segment per line at column 0) this is the line's first mapped segment
        def fl(a): return None if a is None else (a[0], a[1])
        if verbatim:
            # a bare SourceMapSource hands back its GIVEN map verbatim for columns=false, and that map need not start lines at
            # column 0: such a map is resolved as C03 states it - every position of a line carries the (file, line) of the
            # line's first mapped segment
            def first_mapped(l):
                a = next((x[2] for x in ms if x[0] == l and x[2] is not None), None)
                return None if a is None else (a[0], a[1])
            cache = {}
            out['map0'] = [cache.setdefault(l, first_mapped(l)) for (l, c) in pos]
        else:
            # (file, line) of every position resolved the ordinary way (greatest segment at or before it); for the lines-only
            # maps the crate's encoders produce (one segment per line at column 0) this is the line's first mapped segment
            out['map0'] = [fl(lookup(ms, l, c)) for (l, c) in pos]
    if 'c1f0' in o['streams']:
        st = stream_attr(o['streams']['c1f0']); out['stream1'] = [lookup(st, l, c) for (l, c) in pos]
    return out


def c13(obs, prop='C13'):
    alt = obs.get('alt')
    if alt is None or obs.get('alt_prop', 'C13') != prop: return []
    v = []
    if alt.get('source') != obs.get('source'):
        return [(prop, 'text differs from the equivalent composition: %r vs %r (%s)' % (obs.get('source'), alt.get('source'), obs.get('alt_kind')))]
    vb = verbatim_root(obs.get('tree')) or verbatim_root(alt.get('tree')) or alt.get('tree') is None and find_sms(obs.get('tree') or {'kind': '?'}) is not None
    a, b = attribution_table(obs, vb), attribution_table(alt, vb)
    for k in a:
        if k in b and a[k] != b[k]:
            i = next(i for i, (x, y) in enumerate(zip(a[k], b[k])) if x != y)
            v.append((prop, '%s: position/line #%d is attributed to %r here but to %r by the equivalent composition (%s)' % (k, i, a[k][i], b[k][i], obs.get('alt_kind'))))
    for k in ('c1f0', 'c0f0', 'c1f1', 'c0f1'):
        if k in obs['streams'] and k in alt['streams'] and obs['streams'][k]['end'] != alt['streams'][k]['end']:
            v.append((prop, '%s: end info %r vs %r in the equivalent composition' % (k, obs['streams'][k]['end'], alt['streams'][k]['end'])))
    return v


def find_sms(tree):
    """(sms spec, character offset) when the tree is a SourceMapSource or a ConcatSource whose FIRST leaf is one"""
    t = tree
    while True:
        if t['kind'] == 'sms': return t
        if t['kind'] in ('boxed', 'cached'): t = t['inner']; continue
        if t['kind'] in ('concat', 'concat_add') and t['children']: t = t['children'][0]; continue
        return None


def c08(obs):
    tree = obs.get('tree')
    sms = find_sms(tree) if tree else None
    if sms is None or sms.get('inner_map') is not None: return []
    v = []
    M = sms['map']
    msegs = map_segs(M)
    text = sms['text']
    pos, end = positions(text)
    direct = tree['kind'] == 'sms'
    # columns = true, normal mode: every character
    for k in ('c1f0', 'c1f1'):
        s = obs['streams'].get(k)
        if s is None: continue
        st = stream_attr(s)
        for (l, c) in pos:
            a, b = lookup(st, l, c), lookup(msegs, l, c)
            if a != b:
                v.append(('C08', '%s: character at (%d,%d) is attributed to %r by the stream but to %r by the given map %r' % (k, l, c, a, b, M['mappings']))); break
    for k in ('c0f0', 'c0f1'):
        s = obs['streams'].get(k)
        if s is None: continue
        st = stream_attr(s)
        lines = sorted({p[0] for p in pos})
        for l in lines:
            fa = next((x[2] for x in st if x[0] == l and x[2] is not None), None)
            fb = next((x[2] for x in msegs if x[0] == l and x[2] is not None), None)
            ea = None if fa is None else (fa[0], fa[1], fa[3])
            eb = None if fb is None else (fb[0], fb[1], None)
            if ea != eb:
                v.append(('C08', '%s: line %d is attributed to %r by the stream, the map\'s first mapped segment says %r (names dropped) [%r]' % (k, l, ea, eb, M['mappings']))); break
    if direct:
        for k, s in obs['streams'].items():
            if text == '' : continue
            _, srcs, names = tables_of(s['events'])
            want_s = {i: (with_root(M.get('sourceRoot'), n), (M.get('sourcesContent') or [None] * 99)[i] if i < len(M.get('sourcesContent') or []) else None) for i, n in enumerate(M.get('sources', []))}
            if srcs != want_s: v.append(('C08', '%s: declared sources %r differ from the map\'s %r' % (k, srcs, want_s)))
            if k.startswith('c1'):
                want_n = {i: n for i, n in enumerate(M.get('names', []))}
                if names != want_n: v.append(('C08', '%s: declared names %r differ from the map\'s %r' % (k, names, want_n)))
    if not direct:
        # through an enclosing source: the stream an outside caller gets and map() must agree everywhere (the C03 relation),
        # so that nothing of the SourceMapSource's map leaks beyond its text
        v += [('C08', 'through the enclosing source: ' + msg) for (_, msg) in c03(obs)]
    # through map() of the enclosing source (or of the SourceMapSource itself)
    mp = obs['maps'].get('c1', 'absent')
    if mp != 'absent':
        got = map_segs(mp)
        for (l, c) in pos:
            a, b = lookup(got, l, c), lookup(msegs, l, c)
            if a != b:
                v.append(('C08', 'map(): character at (%d,%d) resolves to %r, the given map says %r' % (l, c, a, b))); break
    return v


def tree_bytes(tree):
    """exact bytes and the expected source() text of a tree of leaves / ConcatSource (None when other kinds are involved)"""
    k = tree['kind']
    if k in ('orig', 'raw', 'rawstr', 'rawbuf'):
        b = bytes(tree['bytes']) if 'bytes' in tree else tree['text'].encode('utf-8')
        return b, b.decode('utf-8', 'replace')
    if k in ('concat', 'concat_add'):
        bs, ts = b'', ''
        for c in tree['children']:
            r = tree_bytes(c)
            if r is None: return None
            bs += r[0]; ts += r[1]
        return bs, ts
    if k in ('boxed', 'cached'): return tree_bytes(tree['inner'])
    return None


def c07(obs):
    v = []
    src = obs.get('source'); vw = obs.get('views') or {}
    if src is None: return v
    tb = tree_bytes(obs['tree']) if obs.get('tree') else None
    if tb is not None and any(ord(ch) == 0xFFFD for ch in tb[1]) or (tb is not None and 'buffer_bytes' in vw and bytes(vw['buffer_bytes']) != tb[0]):
        # binary leaves: buffer() is the exact bytes given, source() their lossy decoding
        if src != tb[1]: v.append(('C07', 'source() is %r but the lossy decoding of the leaves is %r' % (src, tb[1])))
        if 'buffer_bytes' in vw and bytes(vw['buffer_bytes']) != tb[0]: v.append(('C07', 'buffer() is %r but the leaves hold the bytes %r' % (bytes(vw['buffer_bytes']), tb[0])))
        if 'size' in vw and vw['size'] != len(tb[0]): v.append(('C07', 'size() is %d but buffer() has %d bytes' % (vw['size'], len(tb[0]))))
        if 'writer_bytes' in vw and bytes(vw['writer_bytes']) != tb[0]: v.append(('C07', 'to_writer() wrote %r but buffer() is %r' % (bytes(vw['writer_bytes']), tb[0])))
        if 'rope' in vw and vw['rope'] != src: v.append(('C07', 'rope() renders to %r but source() is %r' % (vw['rope'], src)))
        wf = vw.get('writerfail')
        if wf is not None and 'written_bytes' in wf:
            if wf['k'] >= len(tb[0]) and (wf['err'] or bytes(wf['written_bytes']) != tb[0]): v.append(('C07', 'a writer accepting %d bytes: error=%r wrote %r' % (wf['k'], wf['err'], bytes(wf['written_bytes']))))
            if wf['k'] < len(tb[0]) and (not wf['err'] or not tb[0].startswith(bytes(wf['written_bytes']))): v.append(('C07', 'a writer failing after %d bytes: error=%r wrote %r, buffer() is %r' % (wf['k'], wf['err'], bytes(wf['written_bytes']), tb[0])))
        return v
    if 'rope' in vw and vw['rope'] != src: v.append(('C07', 'rope() renders to %r but source() is %r' % (vw['rope'], src)))
    if 'buffer' in vw and vw['buffer'] != src: v.append(('C07', 'buffer() is %r but source() is %r' % (vw['buffer'], src)))
    if 'size' in vw and vw['size'] != len(src.encode('utf-8')): v.append(('C07', 'size() is %d but buffer() has %d bytes' % (vw['size'], len(src.encode('utf-8')))))
    if 'writer' in vw and (vw['writer'] != src or vw.get('writer_err')): v.append(('C07', 'to_writer() wrote %r (error: %r) but buffer() is %r' % (vw['writer'], vw.get('writer_err', False), src)))
    wf = vw.get('writerfail')
    if wf is not None:
        n = len(src.encode('utf-8'))
        if wf['k'] >= n:
            if wf['err'] or wf['written'] != src: v.append(('C07', 'a writer accepting %d >= %d bytes: to_writer returned error=%r and wrote %r' % (wf['k'], n, wf['err'], wf['written'])))
        else:
            if not wf['err']: v.append(('C07', 'a writer failing after %d bytes: to_writer did not return the error (buffer has %d bytes)' % (wf['k'], n)))
            if 'written_bytes' in wf:
                if not src.encode('utf-8').startswith(bytes(wf['written_bytes'])): v.append(('C07', 'a writer failing after %d bytes: %r was written, which is not a prefix of buffer() %r' % (wf['k'], bytes(wf['written_bytes']), src.encode('utf-8'))))
            elif not src.startswith(wf['written']): v.append(('C07', 'a writer failing after %d bytes: %r was written, which is not a prefix of buffer() %r' % (wf['k'], wf['written'], src)))
    return v


def c09(obs):
    """combined source maps: an independent composition of the decoded outer and inner maps"""
    tree = obs.get('tree')
    if tree is None or tree.get('kind') != 'sms' or tree.get('inner_map') is None: return []
    v = []
    Mo, Mi = tree['map'], tree['inner_map']
    inner_name = tree.get('name', 'x.js')
    outer = map_segs(Mo)            # file names with the outer sourceRoot applied
    inner = map_segs(Mi)
    remove = bool(tree.get('remove_original_source'))
    orig_text = tree.get('original_source')
    if orig_text is None:
        srcs = Mo.get('sources', [])
        srcs = [with_root(Mo.get('sourceRoot'), n) for n in srcs]
        if inner_name in srcs and srcs.index(inner_name) < len(Mo.get('sourcesContent') or []): orig_text = Mo['sourcesContent'][srcs.index(inner_name)]
    olines = split_lines(orig_text) if orig_text is not None else None
    inner_contents = {with_root(Mi.get('sourceRoot'), n): ((Mi.get('sourcesContent') or [])[i] if i < len(Mi.get('sourcesContent') or []) else None) for i, n in enumerate(Mi.get('sources', []))}
    outer_contents = {with_root(Mo.get('sourceRoot'), n): ((Mo.get('sourcesContent') or [])[i] if i < len(Mo.get('sourcesContent') or []) else None) for i, n in enumerate(Mo.get('sources', []))}
    for k in ('c1f0', 'c1f1'):
        s = obs['streams'].get(k)
        if s is None: continue
        _, srcs_decl, _ = tables_of(s['events'])
        st = stream_attr(s)
        for (l, c, got, _len) in st:
            o = lookup(outer, l, c)
            if o is None:
                if got is not None: v.append(('C09', '%s: chunk at (%d,%d) is mapped to %r although the outer map leaves it unmapped' % (k, l, c, got)))
                continue
            # "points into the named inner source": the outer file name WITH the outer sourceRoot applied equals the name given
            # to the SourceMapSource (as in webpack-sources; a caller using a sourceRoot passes the rooted name)
            if o[0] != inner_name:
                if got != o: v.append(('C09', '%s: chunk at (%d,%d): an outer segment into another source %r must pass through unchanged, got %r' % (k, l, c, o, got)))
                continue
            # into the inner source at (o[1], o[2])
            cand = [sg for sg in inner if sg[0] == o[1] and sg[1] <= o[2]]
            isg = max(cand, key=lambda sg: sg[1]) if cand else None
            if isg is None or isg[2] is None:
                exp = None if remove else (o[0], o[1], o[2])
                g3 = None if got is None else got[:3]
                if g3 != exp: v.append(('C09', '%s: chunk at (%d,%d): no inner mapping at %r -> expected %r, got %r' % (k, l, c, o[:3], exp, got)))
                continue
            ia = isg[2]
            if got is None or got[0] != ia[0] or got[1] != ia[1] or not (ia[2] <= got[2] <= ia[2] + (o[2] - isg[1])):
                v.append(('C09', '%s: chunk at (%d,%d): outer %r composes with inner segment %r -> file %r line %d column in [%d,%d], got %r' % (k, l, c, o[:3], isg, ia[0], ia[1], ia[2], ia[2] + (o[2] - isg[1]), got)))
                continue
            # names: inner name, else outer name only if it matches the original text, else none
            if got[3] is not None:
                if ia[3] is not None:
                    if got[3] != ia[3]: v.append(('C09', '%s: chunk at (%d,%d): name %r, the inner segment has name %r' % (k, l, c, got[3], ia[3])))
                elif o[3] is not None and got[3] == o[3]:
                    content = inner_contents.get(ia[0])
                    if content is None or not content_matches(content, got[1], got[2], got[3]):
                        v.append(('C09', '%s: chunk at (%d,%d): outer name %r is used although the original text does not match it' % (k, l, c, got[3])))
                else:
                    v.append(('C09', '%s: chunk at (%d,%d): name %r comes neither from the inner segment nor from the outer one' % (k, l, c, got[3])))
        # every reported file carries the matching content
        used = {a[0] for (_, _, a, _) in st if a is not None}
        for i, (name, content) in srcs_decl.items():
            if name not in used: continue
            if name in inner_contents and name != inner_name:
                want = inner_contents[name]
            elif name == inner_name:
                want = orig_text
            else:
                want = outer_contents.get(name)
            if want is not None and content != want:
                v.append(('C09', '%s: file %r is announced with content %r, expected %r' % (k, name, content, want)))
    # the composed attribution as map() reports it (both column settings): map() must attribute every position as the
    # chunk stream of the same object does (the C03 relation) - a combined map always has a mapped chunk, so the
    # 'map is None' clause of C03 is not involved
    if obs.get('source') is not None:
        v += [('C09', 'composed attribution through map(): ' + msg) for (_, msg) in c03(obs) if 'although the chunk stream has' not in msg]
    return v


ALL['C09'] = c09
ALL['C07'] = c07
ALL['C08'] = c08
ALL['C05'] = c05
ALL['C13'] = c13
ALL['C10'] = lambda obs: c13(obs, 'C10')
ALL['C06'] = c06


# ------------------------------------------------------------------------------------------ equality of two observations
def same_obs(k, a, b):
    if k in ('source',): return a.get('source') == b.get('source')
    if k == 'size': return a.get('views') == b.get('views')
    if k.startswith('map'):
        ma, mb = a['maps'].get('c' + k[3]), b['maps'].get('c' + k[3])
        if (ma is None) != (mb is None): return False
        if ma is None: return True
        def contents(mp):
            sc = mp.get('sourcesContent') or []
            return {n: ((sc[i] if i < len(sc) else None) or '') for i, n in enumerate(mp['sources'])}
        return map_segs(ma) == map_segs(mb) and ma['sources'] == mb['sources'] and ma['names'] == mb['names'] and contents(ma) == contents(mb) and ma.get('debugId') == mb.get('debugId')
    sa, sb = a['streams'][k], b['streams'][k]
    if sa['end'] != sb['end']: return False
    ca = {e[2]: (e[3] or '') for e in sa['events'] if e[0] == 'source'}; cb = {e[2]: (e[3] or '') for e in sb['events'] if e[0] == 'source'}
    if ca != cb: return False
    ta = ''.join(e[1] or '' for e in chunks_of(sa['events'])); tb = ''.join(e[1] or '' for e in chunks_of(sb['events']))
    if ta != tb: return False
    # attribution per chunk start (a replayed stream may be cut differently: compare through positions)
    pos, _ = positions(ta)
    aa, ab = stream_attr(sa), stream_attr(sb)
    return all(lookup(aa, l, c) == lookup(ab, l, c) for (l, c) in pos) if ta else True

"""C15 oracles - pure Python over concrete observations; the same code judges a symbolic path of engine S and the native replay.
A map spec is {'mappings': str, 'sources': [str], 'sourcesContent': [str], 'names': [str], 'file': str|None, 'sourceRoot': str|None, 'debugId': str|None}."""
import json

V3_KEYS = ['version', 'file', 'sources', 'sourcesContent', 'names', 'mappings', 'sourceRoot', 'debugId']
OPT = ['file', 'sourceRoot', 'debugId']
ARR = ['sources', 'sourcesContent', 'names']


def strict_pairs(text):
    """independent strict parse -> list of (key, value) of the top-level object; raises ValueError"""
    def const(c): raise ValueError('non-standard constant ' + c)
    v = json.loads(text, parse_constant=const, object_pairs_hook=lambda ps: ('obj', ps))
    if not (isinstance(v, tuple) and v[0] == 'obj'): raise ValueError('top level is not an object')
    return v[1]


def norm(spec):
    return {'mappings': spec.get('mappings', ''), 'sources': list(spec.get('sources') or []), 'sourcesContent': list(spec.get('sourcesContent') or []),
            'names': list(spec.get('names') or []), 'file': spec.get('file'), 'sourceRoot': spec.get('sourceRoot'), 'debugId': spec.get('debugId')}


def judge_text(spec, text):
    """the document to_json produced for the value `spec`: a version-3 source map with the same fields"""
    s = norm(spec); out = []
    try: ps = strict_pairs(text)
    except ValueError as e: return ['to_json output is not a JSON object an independent parser accepts: %s: %r' % (e, text[:200])]
    keys = [k for k, _ in ps]
    if len(set(keys)) != len(keys): out.append('duplicate keys in %r' % keys)
    d = dict(ps)
    for k in keys:
        if k not in V3_KEYS: out.append('unknown member %r' % k)
    if d.get('version') != 3 or isinstance(d.get('version'), bool): out.append('version is %r, not 3' % (d.get('version'),))
    for k in ('mappings', 'sources', 'names'):
        if k not in d: out.append('member %r missing' % k)
        elif d[k] != s[k]: out.append('member %r is %r, the value has %r' % (k, d[k], s[k]))
    for k in OPT:
        if s[k] is None:
            if k in d: out.append('member %r present (%r) although the value has none (a v3 %s is a string or absent)' % (k, d[k], k))
        elif d.get(k) != s[k]: out.append('member %r is %r, the value has %r' % (k, d.get(k), s[k]))
    all_empty = all(c == '' for c in s['sourcesContent'])
    if all_empty:
        if 'sourcesContent' in d and d['sourcesContent'] not in ([], None) and any(c for c in d['sourcesContent']): out.append('sourcesContent %r for all-empty contents' % (d['sourcesContent'],))
    elif d.get('sourcesContent') != s['sourcesContent']: out.append('member sourcesContent is %r, the value has %r' % (d.get('sourcesContent'), s['sourcesContent']))
    return out


def expected_back(spec):
    s = norm(spec)
    if all(c == '' for c in s['sourcesContent']): s['sourcesContent'] = []
    return s


def judge_back(spec, back, via):
    """back: {'ok': fields} | {'err': msg} | {'panicked': ..} observed from parsing the document to_json produced"""
    if 'panicked' in back: return ['%s panicked: %s' % (via, back['panicked'])]
    if 'ok' not in back: return ['%s rejects the document to_json produced: %s' % (via, back.get('err'))]
    exp = expected_back(spec); got = norm(back['ok'])
    return ['%s(to_json(m)).%s is %r, m has %r' % (via, k, got[k], exp[k]) for k in exp if got[k] != exp[k]]


def expected_doc(text):
    """what parsing the document `text` must give: ('ok', fields) | ('err', why) - the v3 reading the property states (nulls and
    missing arrays read as empty, key order irrelevant, unknown members ignored); documents that are not well-typed source maps
    (wrong JSON types, duplicate members, no mappings) must be rejected or are outside the statement -> ('any', why)"""
    try: ps = strict_pairs(text)
    except ValueError as e: return ('err', 'not a JSON object: %s' % e)
    known = [k for k, _ in ps if k in V3_KEYS and k != 'version']
    if len(set(known)) != len(known): return ('any', 'duplicate member')
    d = dict(ps); out = {}
    m = d.get('mappings')
    if not isinstance(m, str): return ('err' if m is None else 'any', 'mappings missing or not a string')
    out['mappings'] = m
    for k in OPT:
        v = d.get(k)
        if v is not None and not isinstance(v, str): return ('any', '%s of wrong type' % k)
        out[k] = v
    for k in ARR:
        v = d.get(k)
        if v is None: out[k] = []
        elif isinstance(v, list) and all(e is None or isinstance(e, str) for e in v): out[k] = ['' if e is None else e for e in v]
        else: return ('any', '%s of wrong type' % k)
    return ('ok', out)


def judge_doc(text, back, via):
    kind, exp = expected_doc(text)
    if 'panicked' in back: return ['%s panicked on %r: %s' % (via, text[:200], back['panicked'])]
    if kind == 'any': return []
    if kind == 'err': return [] if 'err' in back else ['%s accepts %r (%s)' % (via, text[:200], exp)]
    if 'ok' not in back: return ['%s rejects the well-formed document %r: %s' % (via, text[:300], back.get('err'))]
    got = norm(back['ok'])
    return ['%s(%r).%s is %r, the document says %r' % (via, text[:300], k, got[k], exp[k]) for k in exp if got[k] != exp[k]]


def judge_native(cex, o):
    """native observation (replay family json / jsondoc) -> list of violations"""
    out = []
    if o.get('panicked') is True: return ['panic: %s' % o.get('message')]
    if cex['family'] == 'json':
        spec = cex['map']
        if 'to_json' not in o: return ['to_json fails: %s' % o.get('to_json_err')]
        out += judge_text(spec, o['to_json'])
        if o.get('to_writer') != o['to_json']: out.append('to_writer wrote %r, to_json returned %r' % (o.get('to_writer', o.get('to_writer_err')), o['to_json']))
        for via in ('from_json', 'from_slice', 'from_reader'): out += judge_back(spec, o.get(via, {}), via)
    else:
        for via in ('from_json', 'from_slice', 'from_reader'): out += judge_doc(cex['text'], o.get(via, {}), via)
    return out

#!/usr/bin/env python3
"""./check <property id> [--tier quick|thorough] [--replay file] [--only job-id-substring]
Runs the jobs registered for the property against /repo's current working tree, replays every counterexample natively,
writes /verif/evidence/<id>.json, prints VIOLATION / KNOWN-FINDING lines. Exit 0 = held on everything explored,
1 = replay-confirmed unlisted violation, 2 = the machinery could not conclude."""
import sys, os, json, time, subprocess, hashlib, importlib, multiprocessing as mp, signal, traceback, resource

VERIF = os.path.dirname(os.path.dirname(os.path.abspath(__file__)))
sys.path.insert(0, VERIF)
REPO = os.environ.get('VERIF_REPO', '/repo')
NPROC = int(os.environ.get('VERIF_NPROC', str(min(16, os.cpu_count() or 4))))


def log(*a):
    print(*a, flush=True)


# ------------------------------------------------------------------------------------------------ replay binary
def build_replay():
    """(re)build the native replay binary against /repo's working tree in dev and release"""
    env = dict(os.environ, CARGO_NET_OFFLINE='true', RUSTUP_TOOLCHAIN='1.83.0')
    out = {}
    procs = {}
    crate, tbase = os.path.join(VERIF, 'replay'), os.path.join(VERIF, '.cache', 'replay-target-')
    if os.path.realpath(REPO) != '/repo':
        # development aid (seed runs against scratch worktrees in parallel): a private copy of the replay crate whose
        # path dependency points at VERIF_REPO, with its own target directories. Registered commands never take this path.
        import shutil
        crate = os.path.join('/tmp', 'verif-replay-' + hashlib.sha256(os.path.realpath(REPO).encode()).hexdigest()[:10])
        os.makedirs(crate, exist_ok=True)
        shutil.copytree(os.path.join(VERIF, 'replay', 'src'), os.path.join(crate, 'src'), dirs_exist_ok=True)
        for f in ('Cargo.lock', '.cargo'):
            src = os.path.join(VERIF, 'replay', f)
            if os.path.isdir(src): shutil.copytree(src, os.path.join(crate, f), dirs_exist_ok=True)
            elif os.path.exists(src): shutil.copy(src, os.path.join(crate, f))
        open(os.path.join(crate, 'Cargo.toml'), 'w').write(open(os.path.join(VERIF, 'replay', 'Cargo.toml')).read().replace('path = "/repo"', 'path = "%s"' % os.path.realpath(REPO)))
        tbase = os.path.join(crate, 'target-')
    for prof, flag in (('debug', []), ('release', ['--release'])):
        procs[prof] = subprocess.Popen(['cargo', 'build', '--offline', '--features', 'hooks', '--target-dir', tbase + prof] + flag,
                                       cwd=crate, env=env, stdout=subprocess.PIPE, stderr=subprocess.STDOUT, text=True)
    for prof, p in procs.items():
        o, _ = p.communicate()
        if p.returncode != 0:
            return None, 'replay build (%s) failed:\n%s' % (prof, o[-3000:])
        out[prof] = os.path.join(tbase + prof, prof, 'verif_replay')
    return out, None


def run_replay(bins, cex, timeout=120):
    """-> {'debug': obs, 'release': obs}"""
    os.makedirs(os.path.join(VERIF, 'out', 'replays'), exist_ok=True)
    h = hashlib.sha256(json.dumps(cex, sort_keys=True, default=str).encode()).hexdigest()[:12]
    path = os.path.join(VERIF, 'out', 'replays', '%s-%s.json' % (cex.get('property', 'x'), h))
    with open(path, 'w') as f:
        json.dump(cex, f, indent=1, default=str)
    obs = {}
    for prof, b in bins.items():
        try:
            r = subprocess.run([b, path], capture_output=True, text=True, timeout=timeout)
            line = r.stdout.strip().split('\n')[-1] if r.stdout.strip() else ''
            try:
                obs[prof] = json.loads(line)
            except Exception:
                obs[prof] = {'error': 'no JSON from replay', 'rc': r.returncode, 'stderr': r.stderr[-500:]}
            if r.returncode < 0:
                obs[prof]['signal'] = -r.returncode
        except subprocess.TimeoutExpired:
            obs[prof] = {'timeout': True}
    return path, obs


# ------------------------------------------------------------------------------------------------ job execution
def _worker(spec, conn):
    try:
        resource.setrlimit(resource.RLIMIT_AS, (spec.get('mem_gb', 8) << 30, spec.get('mem_gb', 8) << 30))
    except Exception:
        pass
    try:
        modn, fn = spec['fn'].split(':')
        mod = importlib.import_module(modn)
        from jobs.common import run_job
        params = dict(spec.get('params', {})); params['jid'] = spec['id']
        r = run_job(getattr(mod, fn), params)
    except BaseException as e:
        r = dict(id=spec['id'], status='inconclusive', reason='worker error: ' + ''.join(traceback.format_exception(type(e), e, e.__traceback__))[-2000:],
                 obligations=0, discharged=0, paths=0, queries=0, solver_s=0, wall_s=0, cex=[], witness={}, samples=[], notes=[], items={}, contracts=[])
    try:
        conn.send(r)
    except Exception:
        pass
    conn.close()


def run_jobs(specs, nproc=NPROC, budget_s=None):
    """runs job specs in parallel processes with per-job timeouts; returns results in spec order"""
    ctx = mp.get_context('fork')
    pending = list(enumerate(specs))
    # longest first
    pending.sort(key=lambda t: -t[1].get('timeout', 300))
    running, results = [], {}
    t_start = time.time()
    while pending or running:
        while pending and len(running) < nproc:
            i, spec = pending.pop(0)
            if budget_s is not None and time.time() - t_start > budget_s and not spec.get('required', True):
                results[i] = dict(id=spec['id'], status='skipped', reason='tier time budget exhausted before this optional job started', obligations=0, discharged=0,
                                  paths=0, queries=0, solver_s=0, wall_s=0, cex=[], witness={}, samples=[], notes=[], items={}, contracts=[])
                continue
            pc, cc = ctx.Pipe(False)
            p = ctx.Process(target=_worker, args=(spec, cc), daemon=True)
            p.start(); cc.close()
            running.append((i, spec, p, pc, time.time()))
        still = []
        for (i, spec, p, pc, t0) in running:
            if pc.poll(0):
                try:
                    results[i] = pc.recv()
                except EOFError:
                    results[i] = dict(id=spec['id'], status='inconclusive', reason='worker died (out of memory?)', obligations=0, discharged=0, paths=0, queries=0,
                                      solver_s=0, wall_s=round(time.time() - t0, 1), cex=[], witness={}, samples=[], notes=[], items={}, contracts=[])
                p.join(1)
            elif not p.is_alive():
                results[i] = dict(id=spec['id'], status='inconclusive', reason='worker exited without result (rc=%s)' % p.exitcode, obligations=0, discharged=0, paths=0,
                                  queries=0, solver_s=0, wall_s=round(time.time() - t0, 1), cex=[], witness={}, samples=[], notes=[], items={}, contracts=[])
            elif time.time() - t0 > spec.get('timeout', 300):
                p.kill(); p.join(1)
                results[i] = dict(id=spec['id'], status='inconclusive', reason='time cap of %ds reached' % spec.get('timeout', 300), obligations=0, discharged=0, paths=0,
                                  queries=0, solver_s=0, wall_s=round(time.time() - t0, 1), cex=[], witness={}, samples=[], notes=[], items={}, contracts=[])
            else:
                still.append((i, spec, p, pc, t0))
        running = still
        if running:
            time.sleep(0.05)
    return [results[i] for i in range(len(specs))]


# ------------------------------------------------------------------------------------------------ main
def main():
    import argparse
    ap = argparse.ArgumentParser()
    ap.add_argument('prop')
    ap.add_argument('--tier', default=os.environ.get('VERIF_TIER', 'quick'))
    ap.add_argument('--replay')
    ap.add_argument('--only')
    ap.add_argument('--no-evidence', action='store_true')
    args = ap.parse_args()
    pid = args.prop
    tier = args.tier if args.tier in ('quick', 'thorough') else 'quick'
    seed = int(os.environ.get('VERIF_SEED', '0') or 0)
    t0 = time.time()
    from lib import props, confirm, known
    if pid not in props.PROPS:
        log('property %s is not claimed (see MANIFEST.json not_applicable)' % pid); sys.exit(2)

    if args.replay:
        bins, err = build_replay()
        if err: log(err); sys.exit(2)
        cex = json.load(open(args.replay))
        path, obs = run_replay(bins, cex)
        verdict, why = confirm.confirm(cex, obs)
        log(json.dumps({'observations': obs, 'reproduces': verdict, 'why': why}, indent=1))
        if verdict:
            log('VIOLATION property=%s replay=%s' % (pid, args.replay)); sys.exit(1)
        sys.exit(0)

    # 1. encodings from the current working tree: MIR dump (engine S) and replay binaries, concurrently
    from msx import api
    need_s = True
    inconclusive_reasons = []
    rb = mp.get_context('fork').Pool(1)
    fut = rb.apply_async(build_replay)
    try:
        d, secs = api.dump_dir(REPO)
        log('[%s] MIR of the working tree dumped in %.1fs (%s)' % (pid, secs, d))
        idx = api.load('mir')       # parse once before forking workers
        try: api.load('mir_rel')
        except Exception: pass
    except Exception as e:
        log('[%s] INCONCLUSIVE: %s' % (pid, str(e)[:3000]))
        write_evidence(pid, tier, seed, t0, [], [], [], ['MIR dump failed: ' + str(e)[:500]], [], 0, None)
        sys.exit(2)
    bins, err = fut.get()
    rb.close()
    if err:
        log('[%s] INCONCLUSIVE: %s' % (pid, err)); inconclusive_reasons.append(err[:500])
    else:
        os.environ['VERIF_REPLAY_DEBUG'] = bins['debug']

    specs = props.jobs_for(pid, tier, seed)
    if args.only: specs = [s for s in specs if args.only in s['id']]
    log('[%s] %d jobs (%d required), tier %s, %d workers' % (pid, len(specs), sum(1 for s in specs if s.get('required', True)), tier, NPROC))
    results = run_jobs(specs, budget_s=props.BUDGET[tier])

    # 2. counterexamples -> native replay -> verdicts
    kf = known.load()
    violations, knowns, nonrepro, replays = [], [], [], 0
    for spec, r in zip(specs, results):
        if r['status'] != 'violation': continue
        seen = set()
        for cx in r['cex']:
            cx = dict(cx); cx['property'] = pid; cx['job'] = spec['id']
            key = json.dumps({k: v for k, v in cx.items() if k not in ('oracle',)}, sort_keys=True, default=str)
            if key in seen: continue
            seen.add(key)
            if bins is None:
                nonrepro.append((spec['id'], cx, 'replay binary not available')); continue
            path, obs = run_replay(bins, cx); replays += 1
            ok, why = confirm.confirm(cx, obs)
            cx['replay'] = {'path': path, 'reproduces': ok, 'why': why}
            if not ok:
                nonrepro.append((spec['id'], cx, why)); continue
            k = known.match(kf, pid, cx, obs)
            if k is not None: knowns.append((k, cx, path))
            else: violations.append((spec['id'], cx, path, why))
    # known findings met inside jobs (filtered per path so that other violations are still reported): confirm natively
    for spec, r in zip(specs, results):
        for cx in r.get('known', []):
            cx = dict(cx); cx['property'] = pid; cx['job'] = spec['id']
            kid = cx['known']
            k = next((x for x in kf if x['id'] == kid), None)
            if k is None or bins is None: continue
            cx2 = dict(cx); cx2.pop('props', None); cx2['props'] = [pid]
            path, obs = run_replay(bins, cx2); replays += 1
            ok, why = confirm.confirm(cx2, obs)
            if ok: knowns.append((k, cx, path))
            else: nonrepro.append((spec['id'], cx, 'listed known finding %s did not reproduce natively: %s' % (kid, why)))
    # 3. exit code and lines
    req_bad = [(s, r) for s, r in zip(specs, results) if s.get('required', True) and r['status'] in ('inconclusive', 'skipped')]
    opt_bad = [(s, r) for s, r in zip(specs, results) if not s.get('required', True) and r['status'] in ('inconclusive', 'skipped')]
    for s, r in req_bad:
        log('[%s] INCONCLUSIVE required job %s: %s' % (pid, s['id'], (r.get('reason') or '; '.join(r.get('notes', [])))[:600]))
        inconclusive_reasons.append('%s: %s' % (s['id'], (r.get('reason') or '; '.join(r.get('notes', [])))[:300]))
    for jid, cx, why in nonrepro:
        log('[%s] INCONCLUSIVE non-reproducing counterexample in %s (%s): %s' % (pid, jid, why, json.dumps(cx, default=str)[:400]))
        inconclusive_reasons.append('non-reproducing counterexample in %s: %s' % (jid, why))
    shown = set()
    for k, cx, path in knowns:
        if k['id'] in shown: continue
        shown.add(k['id'])
        log('KNOWN-FINDING: property=%s %s (e.g. %s)' % (pid, k['what'], path))
    for jid, cx, path, why in violations[:10]:
        log('VIOLATION property=%s replay=%s' % (pid, path))
        log('    [%s] %s' % (jid, cx.get('oracle', '')[:300]))
    if not args.no_evidence:
        write_evidence(pid, tier, seed, t0, specs, results, violations, inconclusive_reasons, knowns, replays, idx)
    n_pass = sum(1 for r in results if r['status'] == 'pass')
    log('[%s] %d/%d jobs passed, %d violations, %d known findings, %d inconclusive (required) + %d (optional), %.0fs' % (
        pid, n_pass, len(results), len(violations), len(shown), len(req_bad) + len(nonrepro), len(opt_bad), time.time() - t0))
    api.cleanup_dump()
    if violations: sys.exit(1)
    if inconclusive_reasons: sys.exit(2)
    sys.exit(0)


def write_evidence(pid, tier, seed, t0, specs, results, violations, inconclusive, knowns, replays, idx):
    from lib import props
    P = props.PROPS.get(pid, {})
    passed = [(s, r) for s, r in zip(specs, results) if r['status'] == 'pass']
    items = {}
    contracts = set()
    for r in results:
        items.update(r.get('items') or {})
        contracts |= set(r.get('contracts') or [])
    ev = {
        'property_id': pid, 'tier': tier, 'seed': seed, 'level': 'model_checking',
        'coverage': {
            'states': max(1, sum(r.get('paths', 0) for r in results)),
            'transitions': max(1, sum(r.get('queries', 0) for r in results)),
            'traces_validated_against_impl': sum(r.get('tv', 0) for r in results) + replays,
            'samples': [x for r in results for x in (r.get('samples') or [])][:12] or ['(no job produced a sample)'],
            'evaluations': max(1, sum(r.get('queries', 0) for r in results)),
            'distinct_nontrivial': sum(1 for s, r in passed if all(r.get('witness', {}).values())),
            'rule': 'one case = one job (input shape x oracle) decided by the solver over every value inside its bound; non-trivial = all of the job\'s reachability witnesses were satisfiable',
            'obligations': sum(r.get('obligations', 0) for r in results),
            'discharged': sum(r.get('discharged', 0) for r in results),
            'symbolic_paths': sum(r.get('paths', 0) for r in results),
            'solver_queries': sum(r.get('queries', 0) for r in results),
            'solver_seconds': round(sum(r.get('solver_s', 0) for r in results), 2),
            'engines': sorted({s.get('engine', 'S') for s in specs}),
            'functions_encoded': {k: {'mir_lines': v[0], 'sha': v[1]} for k, v in sorted(items.items())},
            'contracts_used': sorted(contracts),
            'bounds': P.get('bounds', {}).get(tier, ''),
            'outside_the_bound': P.get('outside', ''),
            'jobs': [{'id': s['id'], 'engine': s.get('engine', 'S'), 'required': s.get('required', True), 'status': r['status'], 'paths': r.get('paths', 0),
                      'queries': r.get('queries', 0), 'obligations': r.get('obligations', 0), 'discharged': r.get('discharged', 0), 'solver_s': r.get('solver_s', 0),
                      'wall_s': r.get('wall_s', 0), 'witness': r.get('witness', {}), 'reason': (r.get('reason') or '')[:300]} for s, r in zip(specs, results)],
            'inconclusive_optional': [s['id'] for s, r in zip(specs, results) if not s.get('required', True) and r['status'] in ('inconclusive', 'skipped')],
            'inconclusive_required': inconclusive,
            'known_findings_seen': sorted({k['id'] for k, _, _ in knowns}),
            'counterexamples': [{'job': j, 'replay': p, 'oracle': cx.get('oracle', '')[:300]} for j, cx, p, w in violations[:10]],
            'source_hash': getattr(idx, 'src_hash', None) if idx else None,
            'mir_dump_seconds': round(getattr(idx, 'dump_secs', 0), 1) if idx else None,
            'checker_cmd': './check %s --tier %s' % (pid, tier),
        },
        'assumptions': P.get('assumptions', []) + ['std / third-party callees are replaced by the contracts listed in coverage.contracts_used (msx/contracts.py, msx/textmodel.py)',
                                                   'the nightly MIR of the working tree is what is interpreted; every counterexample is replayed on the 1.83 build (dev and release) before it is reported'],
        'wall_s': round(time.time() - t0, 2),
        'violations': len(violations),
    }
    os.makedirs(os.path.join(VERIF, 'evidence'), exist_ok=True)
    with open(os.path.join(VERIF, 'evidence', pid + '.json'), 'w') as f:
        json.dump(ev, f, indent=1, default=str)


if __name__ == '__main__':
    main()

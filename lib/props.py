"""Registry: property id -> jobs per tier. Required jobs are calibrated to finish well inside their caps on this
machine; optional jobs may end inconclusive without changing the exit code (they are reported in evidence)."""
import random

BUDGET = {'quick': 8 * 60, 'thorough': 12 * 60}


def J(id, fn, params=None, required=True, timeout=300, engine='S', mem_gb=8):
    return dict(id=id, fn=fn, params=params or {}, required=required, timeout=timeout, engine=engine, mem_gb=mem_gb)


# ------------------------------------------------------------------------------------------------ S1: codec
DEC_SKELETONS_QUICK = ['1:7', '4:7111', '4:1711', '4:1171', '4:1117', '5:11117', '1', '4', '5', '1,4', '4;5', '4:2111', '5:11121', '1,,4', ';;4', '4,1;1', '4:1211,4', '4,;4', '4,,;1', '5;,4']
DEC_SKELETONS_THOROUGH = ['4:3111', '5:11113', '4:2222', '1:3', '4,4,4', '5;5;5', '4:1311;;4', '1,4,5', ',,;;4:2111,,1', '5:22222', '4:1111,5:21112;1:2']


def codec_c12(tier, seed):
    jobs = [J('vlq_kernel', 'jobs.codec:vlq_kernel', dict(bits=30), timeout=120),
            J('vlq_kernel_release', 'jobs.codec:vlq_kernel', dict(bits=30, flavour='mir_rel'), timeout=120)]
    for sk in DEC_SKELETONS_QUICK:
        jobs.append(J('decoder_format[%s]' % sk, 'jobs.codec:decoder_format', dict(skeleton=sk), timeout=300))
    for shape, bits in [([4], 5), ([5], 5), ([1], 6), ([1, 4], 3), ([4, 1], 3), ([4, 4], 2), ([5, 4], 2), ([4, 5], 2), ([5, 5], 1), ([5, 1, 4], 1)]:
        jobs.append(J('roundtrip%s/b%d' % (shape, bits), 'jobs.codec:roundtrip', dict(shape=shape, bits=bits), timeout=400))
    for shape, bits in [([4], 5), ([4, 4], 3), ([5, 1], 3), ([1, 4], 3), ([1, 5, 4], 2)]:
        jobs.append(J('lines_only%s/b%d' % (shape, bits), 'jobs.codec:lines_only', dict(shape=shape, bits=bits), timeout=400))
    jobs.append(J('tv_codec', 'jobs.codec:tv_codec', dict(n=300, seed=seed), timeout=300))
    if tier == 'thorough':
        for sk in DEC_SKELETONS_THOROUGH:
            jobs.append(J('decoder_format[%s]' % sk, 'jobs.codec:decoder_format', dict(skeleton=sk), required=False, timeout=1500))
        for shape, bits in [([4], 10), ([5], 7), ([4, 5], 3), ([5, 4], 3), ([1, 4, 5], 2), ([4, 4, 4], 2), ([4, 1, 4], 2), ([5, 5], 3)]:
            jobs.append(J('roundtrip%s/b%d' % (shape, bits), 'jobs.codec:roundtrip', dict(shape=shape, bits=bits), required=False, timeout=900))
        for shape, bits in [([4, 4], 5), ([4, 1, 5], 3), ([4, 4, 4], 2)]:
            jobs.append(J('lines_only%s/b%d' % (shape, bits), 'jobs.codec:lines_only', dict(shape=shape, bits=bits), required=False, timeout=900))
        for field in range(5):
            jobs.append(J('roundtrip_field%d_full' % field, 'jobs.codec:roundtrip_one_field', dict(field=field, bits=30), required=False, timeout=900))
    return jobs


def codec_c11(tier, seed):
    jobs = [J('vlq_kernel', 'jobs.codec:vlq_kernel', dict(bits=30), timeout=120)]
    for shape, bits in [([4], 5), ([5, 4], 2), ([1, 4], 3)]:
        jobs.append(J('roundtrip%s/b%d' % (shape, bits), 'jobs.codec:roundtrip', dict(shape=shape, bits=bits), timeout=400))
    jobs.append(J('lines_only[4, 4]/b3', 'jobs.codec:lines_only', dict(shape=[4, 4], bits=3), timeout=400))
    jobs.append(J('lines_only[1, 4]/b3', 'jobs.codec:lines_only', dict(shape=[1, 4], bits=3), timeout=400))
    return jobs


def codec_c17(tier, seed):
    jobs = [J('decoder_step', 'jobs.codec:decoder_step', dict(), timeout=120),
            J('decoder_step_release', 'jobs.codec:decoder_step', dict(flavour='mir_rel'), timeout=120),
            J('decoder_bytes[3]', 'jobs.codec:decoder_bytes', dict(length=3), timeout=120),
            J('decoder_bytes[2]/release', 'jobs.codec:decoder_bytes', dict(length=2, flavour='mir_rel'), timeout=120)]
    for slot in range(5):
        for c in (12, 13, 14, 20):
            digs = ['1'] * 5; digs[slot] = 'x'
            sk = '5:' + 'x'       # placeholder, real skeleton built below
            jobs.append(J('decoder_run[slot%d,cont%d]' % (slot, c), 'jobs.codec:decoder_long_run', dict(slot=slot, cont=c), timeout=200))
    for sk in ('2', '3', '6', '7', '2;6', '8'):
        jobs.append(J('decoder_run[%s]' % sk, 'jobs.codec:decoder_run', dict(skeleton=sk), timeout=200))
        jobs.append(J('decoder_run[%s]/release' % sk, 'jobs.codec:decoder_run', dict(skeleton=sk, flavour='mir_rel'), timeout=200))
    jobs.append(J('decoder_run[slot0,cont13]/release', 'jobs.codec:decoder_long_run', dict(slot=0, cont=13, flavour='mir_rel'), timeout=200))
    if tier == 'thorough':
        jobs.append(J('decoder_bytes[4]', 'jobs.codec:decoder_bytes', dict(length=4), required=False, timeout=900))
        jobs.append(J('decoder_bytes[5]', 'jobs.codec:decoder_bytes', dict(length=5), required=False, timeout=900))
        for slot in range(5):
            for c in (1, 5, 11, 15, 25, 40):
                jobs.append(J('decoder_run[slot%d,cont%d]' % (slot, c), 'jobs.codec:decoder_long_run', dict(slot=slot, cont=c), required=False, timeout=600))
    return jobs


# ------------------------------------------------------------------------------------------------ S2: source trees
def O(text, name='a.js'): return {'kind': 'orig', 'text': text, 'name': name}
def RS(text): return {'kind': 'rawstr', 'text': text}
def R(text): return {'kind': 'raw', 'text': text}
def RB(text): return {'kind': 'rawbuf', 'text': text}
def CC(*ch): return {'kind': 'concat', 'children': list(ch)}
def BX(x): return {'kind': 'boxed', 'inner': x}
def CA(x): return {'kind': 'cached', 'inner': x}


TREES_QUICK = [
    ('orig4', O('????')),
    ('rawstr4', RS('!!!!')), ('raw4', R('!!!!')), ('rawbuf3', RB('!!!')),
    ('concat[orig2,rawstr2]', CC(O('??'), RS('!!'))),
    ('concat[rawstr2,orig2]', CC(RS('!!'), O('??'))),
    ('concat[orig2,orig2b]', CC(O('??'), O('??', 'b.js'))),
    ('concat[orig,rawstr1,orig same file same content]', CC(O('a;'), RS('!'), O('a;'))),
    ('nested[[orig2,rawstr1],rawstr1]', CC(BX(CC(O('??'), RS('!'))), RS('!'))),
    ('nested[[rawstr1,orig2],orig1b]', CC(BX(CC(RS('!'), O('??'))), O('?', 'b.js'))),
    ('nested[rawstr1,[orig2,rawstr1]]', CC(RS('!'), BX(CC(O('??'), RS('!'))))),
    ('concat[orig2,empty,rawstr1]', CC(O('??'), RS(''), RS('!'))),
    ('concat[empty,orig2,empty]', CC(RS(''), O('??'), O('', 'e.js'))),
    ('single[orig3]', CC(O('???'))),
    ('orig: a 16-character statement, then another (VLQ digit border)', O('aaaaaaaaaaaaaaa;?')),
    ('concat[rawstr 16 chars,orig2] (column delta 16)', CC(RS('xxxxxxxxxxxxxxxx'), O('??'))),
    ('empty[]', CC()),
]
def CCA(*ch, **then): return {'kind': 'concat_add', 'children': list(ch), 'then': {k[1:]: v for k, v in then.items()}}


# ConcatSource built through its own API (default() + add): typed nested ConcatSources are flattened by add; observers between adds
TREES_QUICK += [
    ('added[orig2,rawstr1]', CCA(O('??'), RS('!'))),
    ('added[orig1,typed concat[rawstr1,orig1b],rawstr1] (flattened by add)', CCA(O('?'), CC(RS('!'), O('?', 'b.js')), RS('!'))),
    ('added[rawstr1,orig1];source;size;then a typed concat[orig1b,rawstr1] (mutation after observation)', CCA(RS('!'), O('?'), CC(O('?', 'b.js'), RS('!')), _1=['source', 'size', 'buffer'])),
    ('added[orig2];hash;source;then rawstr1;source;then a boxed leaf', CCA(O('??'), RS('!'), BX(O('a', 'c.js')), _0=['hash', 'source'], _1=['source'])),
]
TREES_THOROUGH = [
    ('orig5', O('?????')),
    ('orig4/t', O('????'), 't'),
    ('concat[orig3,rawstr2]', CC(O('???'), RS('!!'))),
    ('concat[orig2,rawstr1,orig2b]', CC(O('??'), RS('!'), O('??', 'b.js'))),
    ('nested[[orig2,rawstr1],[rawstr1,orig2b]]', CC(BX(CC(O('??'), RS('!'))), BX(CC(RS('!'), O('??', 'b.js'))))),
    ('nested3[[[orig2,rawstr1]],rawstr1]', CC(BX(CC(BX(CC(O('??'), RS('!'))))), RS('!'))),
    ('concat[orig2,raw2,rawbuf2]', CC(O('??'), R('!!'), RB('!!'))),
    ('concat[orig2,empty,empty,rawstr1]', CC(O('??'), RS(''), O('', 'e.js'), RS('!'))),
]


def RP(inner, *reps): return {'kind': 'replace', 'inner': inner, 'replacements': [dict(start=r[0], end=r[1], content=r[2], name=(r[3] if len(r) > 3 else None), enforce=(r[4] if len(r) > 4 else 1), then=(r[5] if len(r) > 5 else [])) for r in reps]}
Q = '?'

REPLACE_QUICK = [
    ('replace(rawstr ab/cd,[sym del])', RP(RS('ab\ncd'), (Q, Q, ''))),
    ('replace(rawstr ab/cd,[sym X])', RP(RS('ab\ncd'), (Q, Q, 'X'))),
    ('replace(rawstr a/b/c,[sym X/])', RP(RS('a\nb\nc'), (Q, Q, 'X\n'))),
    ('replace(orig a;/b,[sym X/Y])', RP(O('a;\nb'), (Q, Q, 'X\nY'))),
    ('replace(orig ab;cd;/ef,[sym del])', RP(O('ab;cd;\nef'), (Q, Q, ''))),
    ('replace(orig ab;cd,[sym X named])', RP(O('ab;cd'), (Q, Q, 'X', 'n'))),
    ('replace(orig sym3,[sym X])', RP(O('???'), (Q, Q, 'X'))),
    ('replace(rawstr abcd,[sym X],[sym del])', RP(RS('ab\ncd'), (Q, Q, 'X'), (Q, Q, ''))),
    ('replace(orig ab;c,[sym X named],[sym Y])', RP(O('ab;c'), (Q, Q, 'X', 'n'), (Q, Q, 'Y'))),
    ('replace(orig abc,[ins pre/normal/post at sym])', RP(O('abc'), (1, 1, 'N'), (1, 1, 'P', None, 0), (1, 1, 'Q', None, 2), (Q, Q, 'Z'))),
    ('replace(replace(orig abcdef,[NM named n]),[R named r],[sym Y])', RP(RP(O('abcdef'), (3, 4, 'NM', 'n')), (0, 1, 'R', 'r'), (Q, Q, 'Y'))),
    ('replace(rawstr a/bc/de,[sym XX],[sym del])', RP(RS('a\nbc\nde'), (Q, Q, 'XX'), (Q, Q, ''))),

    ('replace(concat[orig ab,rawstr c/d],[sym X])', RP(CC(O('ab'), RS('c\nd')), (Q, Q, 'X'))),
    ('replace(orig ab,[beyond end X],[beyond end /Y])', RP(O('ab'), (5, 7, 'X'), (9, 9, '\nY'))),
    ('replace(orig abc,[])', RP(O('a;c'))),
    ('concat[replace(orig ab,[beyond end X/c]),orig d b]', CC(RP(O('ab'), (Q, Q, 'X\nc')), O('d', 'b.js'))),
]
HISTORY_QUICK = [
    ('history:replace(orig abcd,[sym X];source;clone) - a clone taken after an observation', RP(O('abcd'), (Q, Q, 'X', None, 1, ['source', 'clone']))),
    ('history:replace(rawstr abcd,[2,3 X],[sym Y];size;clone;[ins sym Z])', RP(RS('abcd'), (2, 3, 'X'), (Q, Q, 'Y', None, 1, ['size', 'clone']), (Q, 'S', 'Z'))),
    ('history:replace(orig abcd,[ins sym B];source;[ins sym A];source;[ins sym C])', RP(O('abcd'), (Q, 'S', 'B', None, 1, ['source']), (Q, 'S', 'A', None, 1, ['source']), (Q, 'S', 'C'))),
    ('history:replace(rawstr abc,[sym B];size;[sym A])', RP(RS('abc'), (Q, Q, 'B', None, 1, ['size']), (Q, Q, 'A'))),
]
def _many_inserts(seed, n=24, npos=6, text='abcdefghijkl'):
    # more replacements than std's small-sort threshold (20) with many equal keys, pushed in scrambled order: insertion order
    # of equal keys must survive the sort
    import random
    rnd = random.Random(seed)
    return RP(RS(text), *[(p_, p_, chr(65 + i)) for i, p_ in enumerate(rnd.randrange(0, npos) for _ in range(n))])


MANY_QUICK = [('replace(rawstr 12 chars,[24 inserts at 6 positions, scrambled #%d])' % sd, _many_inserts(sd)) for sd in (0, 3)]
REPLACE_THOROUGH = [
    ('replace(orig a;//b,[sym del],[sym Y/])', RP(O('a;\n\nb'), (Q, Q, ''), (Q, Q, 'Y\n'))),
    ('replace(orig sym4,[sym X/])', RP(O('????'), (Q, Q, 'X\n'))),
    ('replace(rawstr sym4,[sym del])', RP(RS('!!!!'), (Q, Q, ''))),
    ('replace(orig ab;cd,[sym X named],[sym del],[sym Z])', RP(O('ab;cd'), (Q, Q, 'X', 'n'), (Q, Q, ''), (1, 2, 'Z'))),
    ('replace(replace(orig ab;cd,[sym N named n]),[sym Y])', RP(RP(O('ab;cd'), (Q, Q, 'N', 'n')), (Q, Q, 'Y'))),
    ('replace(concat[orig ab named,orig cd b],[sym X],[sym del])', RP(CC(O('a;'), O('c;', 'b.js')), (Q, Q, 'X'), (Q, Q, ''))),
]
C13_QUICK = [
    ('flat:nested[[orig2,rawstr1],rawstr1]', CC(BX(CC(O('??'), RS('!'))), RS('!')), 'flat'),
    ('flat:nested[rawstr1,[orig2,rawstr1]]', CC(RS('!'), BX(CC(O('??'), RS('!')))), 'flat'),
    ('flat:nested[[orig1,orig1b],[rawstr1,orig1c]]', CC(BX(CC(O('?'), O('?', 'b.js'))), BX(CC(RS('!'), O('a?', 'c.js')))), 'flat'),
    ('flat:nested3[[[orig2],rawstr1]]', CC(BX(CC(BX(CC(O('??'))), RS('!')))), 'flat'),
    ('noempty:concat[orig2,empty,rawstr1]', CC(O('??'), RS(''), RS('!')), 'noempty'),
    ('noempty:concat[orig a,empty orig,empty concat,rawstr1,empty,orig b]', CC(O('a?'), O('', 'e.js'), BX(CC()), RS('!'), RS(''), O('?', 'b.js')), 'noempty'),
    ('inner:single[orig3]', CC(O('???')), 'inner'),
    ('inner:concat[empty,orig2,empty]', CC(RS(''), O('??'), RS('')), 'inner'),
    ('inner:boxed(orig3)', BX(O('???')), 'inner'),
    ('inner:replace(orig3,[])', RP(O('???')), 'inner'),
    ('inner:replace(orig a;b,[empty at sym])', RP(O('a;b'), (Q, Q, '')), 'inner-if-empty'),
    ('uncached:concat[cached(concat[orig x/??,orig c? b]),orig z c] (real rope.rs) after map', CC(CA(CC(O('x\n??'), O('c?', 'b.js'))), O('z', 'c.js')), 'uncached', dict(history=['map1'], rope='real')),
    ('uncached:concat[cached(concat[rawstr a/b,rawstr c]),orig z] (real rope.rs) after stream', CC(CA(CC(RS('!\n!'), RS('!'))), O('z?')), 'uncached', dict(history=['c1f0'], rope='real')),
]


def SM(text, mappings, sources=('o.js',), contents=(), names=(), root=None, max=6, consistent=True):
    mp = {'mappings': ({'template': mappings, 'max': max, 'consistent': consistent} if '?' in mappings else mappings), 'sources': list(sources), 'sourcesContent': list(contents), 'names': list(names)}
    if root is not None: mp['sourceRoot'] = root
    return {'kind': 'sms', 'text': text, 'name': 'x.js', 'map': mp}


# consecutive lines from different files whose original lines are consecutive (the lines-only encoder's 'next line' shortcut)
TREES_QUICK.append(('orig a;?b}?c over the alphabet with TAB (blanks after a terminator run)', O('a;?b}?c'), 't'))
TREES_QUICK.append(('concat[orig ?/,sms(b -> o.js line 2)]', CC(O('?\n'), SM('b', 'AACA', ('o.js',)))))

C13_QUICK += [
    ('uncached:cached(concat[rawstr,orig of line breaks only]) after map(columns), then the lines-only MAP first', CA(CC(RS('!'), O('\n\n'))), 'uncached', dict(history=['map1'], what=['map0', 'map1', 'c0f0', 'c1f0', 'source'])),
    ('uncached:cached(concat[rawstr,orig of line breaks only]) after map(lines), then the columns MAP first', CA(CC(RS('!'), O('\n'))), 'uncached', dict(history=['map0'], what=['map1', 'map0', 'c1f0', 'c0f0', 'source'])),
    ('uncached:cached(orig a;//?) after map(columns), then the lines-only MAP first', CA(O('a;\n\n?')), 'uncached', dict(history=['map1'], what=['map0', 'c0f0', 'map1', 'c1f0', 'source'])),
    ('uncached:concat[cached(concat[orig a;,rawstr]),orig c/ c] after map (cache filled by the first streaming, replayed by the second)', CC(CA(CC(O('a;'), RS('!'))), O('c\n', 'c.js')), 'uncached', dict(history=['map1'])),
    ('uncached:concat[cached(concat[orig ?;,rawstr]),orig c c] after a stream', CC(CA(CC(O('?;'), RS('!'))), O('c', 'c.js')), 'uncached', dict(history=['c1f0'])),
    ('unwrap:concat[replace(sms(ab/ trailing newline, zero-width last segment),[]),orig c b]', CC(RP(SM('ab\n', 'AAAA;?A?A', ('o.js',))), O('c', 'b.js')), 'unwrap'),
    ('unwrap:concat[boxed(sms(ab/cd)),replace(orig ?;,[]),cached(rawstr1)]', CC(BX(SM('ab\ncd', 'AAAA,?AAA;?ACA', ('o.js',))), RP(O('?;', 'b.js')), CA(RS('!'))), 'unwrap'),
    ('inner:single[sms(abcd named,unnamed,named at one original position)]', CC(SM('abcd', 'AAAAA,CAAA,CAAAA,C', ('o.js',), (), ('n1',))), 'inner'),
]

SMS_QUICK = [
    ('sms(abcd/ef,2 lines,names,root r)', SM('abcd\nef', 'AAAA,?AA??;?AAA', ('o.js', 'p.js'), ('xyz\nuv',), ('nm', 'n2'), 'r')),
    ('sms(ab//cd/,empty line,root empty)', SM('ab\n\ncd\n', 'A,?AAA;;?AAA?', ('o.js',), (), ('nm',), '')),
    ('sms(abc,unmapped middle)', SM('abc', 'AAAA,?,?AAA', ('o.js',), ('abc',))),
    ('sms(ab/cd,segment at end of line)', SM('ab\ncd', 'AAAA,?AAA;AA?A', ('o.js',), (), (), 'r/')),
    ('sms(a/b/c,partial map)', SM('a\nb\nc', 'AAAA;?AAA', ('o.js',))),
    ('sms(ab/cd,first segment unmapped)', SM('ab\ncd', 'A,?AAA;AACA', ('o.js',))),
    ('concat[sms(ab/cd),rawstr1]', CC(SM('ab\ncd', '?,?AAA;AACA', ('o.js',), (), (), 'r/'), RS('!'))),
    ('concat[sms(ab/cd first unmapped),rawstr1]', CC(SM('ab\ncd', 'A,CAAA;?ACA', ('o.js',)), RS('!'))),
    ('concat[rawstr1,sms(ab/cd named)]', CC(RS('!'), SM('ab\ncd', 'AAAAA,?AAAC;AACA', ('o.js',), (), ('n1', 'n2')))),
    ('concat[sms 2 sources,sms shared source]', CC(SM('ab', 'AAAA,?CAA', ('o.js', 'p.js'), ('ab', 'pq')), SM('cd', 'AAAA,?AAA', ('p.js',), ('pq',)))),
    ('replace(sms(abc/de, generated-only segment last on its line while the text continues),[sym X])', RP(SM('abc\nde', 'AAAA,?;AACA', ('o.js',)), (Q, Q, 'X'))),
    ('replace(sms(abcd content differs),[sym X])', RP(SM('abcd', 'AAAA,EAAE', ('o.js',), ('wxyz',)), (Q, Q, 'X'))),
    ('replace(sms(abcd content equal, named),[sym X])', RP(SM('abcd', 'AAAAA,EAAEC', ('o.js',), ('abcd',), ('n1', 'n2')), (Q, Q, 'X'))),
    ('sms(empty text, empty map)', SM('', '', ('o.js',))),
    ('concat[sms(ab/ trailing newline, zero-width last segment),orig c b]', CC(SM('ab\n', 'AAAA;?A?A', ('o.js',)), O('c', 'b.js'))),
    ('sms(ab, absolute source + root)', SM('ab', 'AAAA,CCAA', ('/abs/o.js', 'rel.js'), (), (), 'w://p')),
    ('sms(ab, only unmapped segments)', SM('ab', 'A,C', ('o.js',))),
    ('concat[orig ab,sms(xx/yyzz first line unmapped, symbolic column)]', CC(O('ab'), SM('xx\nyyzz', ';?AAA', ('o.js',)))),
    ('concat[sms(abcd named,unnamed,named at one original position),rawstr1]', CC(SM('abcd', 'AAAAA,CAAA,CAAAA,C', ('o.js',), (), ('n1',)), RS('!'))),
    ('concat[sms(abc unnamed then named at one original position),rawstr1]', CC(SM('abc', 'AAAA,CAAAA,?AAA', ('o.js',), (), ('n1',)), RS('!'))),
    ('sms(abcdef/, zero-width mapped segment then an unmapped one at the same column)', SM('abcdef\n', 'AAAA,EAAE,A,EAAE', ('a.js',)), ('C08', 'C01', 'C17')),   # two segments at ONE column: 'sorted' (C08) but not the strictly increasing 'consistent' map of C02/C03/C11
    ('concat[sms name foo,sms names foo+bar,sms name foo] (a name announced three times, a new one in between)', CC(SM('a', 'AAAAA', ('o.js',), (), ('foo',)), SM('bc', 'AAAAA,CAA?C', ('o.js',), (), ('foo', 'bar')), SM('d', 'AAAAA', ('o.js',), (), ('foo',)))),
    ('concat[sms 2 sources,sms first source,sms third source,sms first source] (sources announced repeatedly)', CC(SM('a', 'AAAA', ('o.js',)), SM('bc', 'AAAA,CCAA', ('o.js', 'p.js')), SM('d', 'AAAA', ('o.js',)))),
    ('sms(ab, root ending in several slashes)', SM('ab', 'AAAA,CCAA', ('s/a.js', 'b.js'), (), (), 'webpack:///')),
]
SMS_WILD = [
    ('wild:sms(abc/ trailing line break, segments one and two lines past the text)', SM('abc\n', 'AAAA;?AAA;?AAA', ('o.js',), (), (), None, 6, False)),
    ('wild:sms(abc/ trailing line break, segment two lines past the text)', SM('abc\n', 'AAAA;;AAA?', ('o.js',), (), (), None, 6, False)),
    ('wild:sms(ab/cd,any single digits)', SM('ab\ncd', '????;A???', ('o.js',), ('ab',), ('n',), None, 8, False)),
    ('wild:sms(ab/cd,names and big columns)', SM('ab\ncd', 'AAAA?,?AAAA;?', ('o.js',), ('ab',), ('n',), None, 32, False)),
    ('wild:sms(ab,lines beyond text)', SM('ab', 'AAAA;;;?A?A;AAAAC', ('o.js',), (), (), None, 8, False)),
    ('wild:replace(sms(abcd,original line 0..),[sym X])', RP(SM('abcd', 'AA?A,CA??', ('o.js',), ('abcd',), (), None, 6, False), (Q, Q, 'X'))),
    ('wild:concat[sms(ab/cd wild),rawstr]', CC(SM('ab\ncd', '?AAA,?AA?;A', ('o.js',), (), (), None, 6, False), RS('!'))),
]


# C01 quantifies over ANY attached map: columns that go backwards on a line, segments beyond the line / the text, repeated columns
SMS_WILD_SMALL = [
    ('wild:sms(abcd,two segments any columns)', SM('abcd', '?AAA,?AAC', ('o.js',), (), (), None, 12, False)),
    ('wild:sms(ab/cd,segments on both lines any columns)', SM('ab\ncd', 'CAAA,?AAC;?AAC', ('o.js',), (), (), None, 8, False)),
    ('wild:sms(abc,three segments, unmapped in the middle)', SM('abc', '?AAA,?,?AAC', ('o.js',), (), (), None, 6, False)),
    ('wild:concat[sms(abcd any columns),rawstr]', CC(SM('abcd', 'EAAA,?AAC,?AAC', ('o.js',), (), (), None, 6, False), RS('!'))),
    ('wild:replace(sms(abcd any columns),[sym X])', RP(SM('abcd', 'EAAA,?AAC', ('o.js',), ('abcd',), (), None, 8, False), (Q, Q, 'X'))),
    ('wild:cached(sms(abcd any columns)) after map', CA(SM('abcd', 'EAAA,?AAC', ('o.js',), (), (), None, 8, False)), dict(history=['map1'])),
]


# multi-byte UTF-8 texts (C01, C07, C17, C19 quantify over them; the position properties C02-C04 are stated for ASCII)
MB_TREES = [
    ('mb:orig e-acute ? ; euro ?', O('\u00e9?;\u20ac?')),
    ('mb:concat[orig e-acute?,rawstr euro!,raw emoji]', CC(O('\u00e9?'), RS('\u20ac!'), R('\U0001F600\n!'))),
    ('mb:sms(e-acute b euro d, symbolic columns)', SM('\u00e9b\u20acd\nx', 'AAAA,?AAC,?AAC;AACA', ('o.js',), (), (), None, 8, False)),
    ('mb:replace(orig e-acute;euro b,[X at char boundaries])', RP(O('\u00e9;\u20acb'), (2, 3, 'X'), (3, 6, '\u00fc\n'))),
    ('mb:cached(concat[orig euro?/,rawstr e-acute]) after stream', CA(CC(O('\u20ac?\n'), RS('\u00e9'))), dict(history=['c1f0'])),
    ('mb:replace(sms(e-acute b euro d),[b -> Y])', RP(SM('\u00e9b\u20acd', 'AAAA,CAAC,CAAC', ('o.js',), ('\u00e9b\u20acd',)), (2, 3, 'Y'))),
]


def mb_jobs(props, what=None):
    def f(tier, seed):
        jobs = []
        for t in MB_TREES:
            p_ = dict(tree=t[1], props=props, subs=False)
            if what: p_['what'] = what
            if len(t) > 2: p_.update(t[2])
            jobs.append(J('tree:' + t[0], 'jobs.streams:tree_job', p_, timeout=600))
        return jobs
    return f


def wild_small_jobs(props):
    def f(tier, seed):
        jobs = []
        for t in SMS_WILD_SMALL:
            p_ = dict(tree=t[1], props=props, subs=False, what=['source', 'c1f0', 'c0f0'])
            if len(t) > 2: p_.update(t[2])
            jobs.append(J('tree:' + t[0], 'jobs.streams:tree_job', p_, timeout=600))
        return jobs
    return f


def SMC(text, outer, outer_sources, inner, inner_sources, original, name='i.js', outer_contents=(), inner_contents=(), outer_names=(), inner_names=(), remove=False, max=5, root=None):
    t = SM(text, outer, outer_sources, outer_contents, outer_names, root, max)
    t['name'] = name
    t['original_source'] = original
    t['inner_map'] = {'mappings': ({'template': inner, 'max': max, 'consistent': True} if '?' in inner else inner), 'sources': list(inner_sources), 'sourcesContent': list(inner_contents), 'names': list(inner_names)}
    t['remove_original_source'] = remove
    return t


COMBINED_QUICK = [
    ('combined: second outer segment looks up the same inner line far to the LEFT of the first (symbolic column)', SMC('ddd aaa', 'AAAY,IAA?', ('i.js',), 'AAAA,IACA,IACA,IACA', ('orig.txt',), 'aaa bbb ccc ddd', max=32)),
    ('combined: removed, other source, removed on one line (two outer sources, no inner mapping)', SMC('xxx LIB yyy', 'AAAA,ICAA,IDA?', ('i.js', 'lib.js'), ';AAAA', ('orig.txt',), 'xxx yyy\nz', remove=True, max=10)),
    ('combined: inner digits symbolic', SMC('ab\ncd', 'AAAA,CAAC;ACAA', ('i.js', 'o.js'), 'AAAA,?AA?;AA?A', ('q.js',), 'xyz\nuv', inner_contents=('01234\n567',))),
    ('combined: outer column into inner symbolic', SMC('abcd', 'AAA?,CAA?', ('i.js',), 'AAAA,CAAE,CAAC', ('q.js',), 'xyzw', inner_contents=('0123456',))),
    ('combined: remove original, partial inner', SMC('ab\ncd', 'AAAA,CAAC;AACA', ('i.js',), '?AAA', ('q.js',), 'xyz\nuv', remove=True)),
    ('combined: keep original, partial inner', SMC('ab\ncd', 'AAAA,CAAC;AAC?', ('i.js',), 'AAAA', ('q.js',), 'xyz\nuv', remove=False)),
    ('combined: original from outer sourcesContent', SMC('ab\ncd', 'AAAA;AAC?', ('i.js', 'o.js'), 'AAAA;AACA', ('q.js',), None, outer_contents=('xy\nuv', 'oo'))),
    ('combined: identity column adjustment', SMC('abcd', 'AAA?', ('i.js',), 'AAAA', ('q.js',), 'abc\nde', inner_contents=('abc\nde',))),
    ('combined: inner names and outer names', SMC('abcd', 'AAAAA,CAA?C', ('i.js',), 'AAAAA,EAAE', ('q.js',), 'xyzw', outer_names=('xy', 'zw'), inner_names=('n0',), inner_contents=('xyzw',))),
    ('combined: 3 outer sources, 2 inner sources', SMC('ab\ncd', 'AAAA,CCAA;ACAC', ('o.js', 'i.js', 'p.js'), 'AAAA,?CAA', ('q.js', 'r.js'), 'xyz', inner_contents=('q', 'r'))),
    ('combined: original only in outer contents, no inner mapping for line 2', SMC('ab\ncd', 'AAAA;AAC?', ('i.js', 'o.js'), 'AAAA', ('q.js',), None, outer_contents=('xy\nuv', 'oo'))),
    ('combined: outer name reused where the text differs', SMC('abcd', 'AAAAA,CAAEA', ('i.js',), 'AAAA,EAAE', ('q.js',), 'xyzw', outer_names=('xy',), inner_contents=('xyzw',))),
    ('combined: outer name resolved by pass-through first', SMC('abcd', 'ACAAA,CDAEA', ('i.js', 'o.js'), 'AAAA,EAAE', ('q.js',), 'xyzw', outer_names=('zz',), inner_contents=('xyzw',))),
    ('combined under concat', CC(SMC('ab', 'AAAA,CAA?', ('i.js',), 'AAAA,CAAE', ('q.js',), 'xyz'), RS('!'))),
    ('combined: next line passes through to another source on the next original line', SMC('ab\ncd', 'AAAA;ACCA', ('i.js', 'o.js'), 'AAAA', ('q.js',), 'xyz\nuv', outer_contents=('xyz\nuv', 'o1\no2'))),
    ('combined: inner source itself registered before an inner-map source', SMC('ab\ncd', 'AAAA;AAC?', ('i.js',), ';AAAA', ('q.js',), 'xyz\nuv', inner_contents=('q1',), remove=False)),
    ('combined: named then unnamed outer segment collapse onto one inner segment', SMC('abcd', 'AAAAA,CAA?', ('i.js',), 'AAAA', ('q.js',), 'xyzw', outer_names=('xy',), inner_contents=('xyzw',))),
    ('combined: lines resolve to different inner sources on consecutive original lines', SMC('ab\ncd', 'AAAA;AACA', ('i.js',), 'AAAA;ACCA', ('q.js', 'r.js'), 'xyz\nuv', inner_contents=('q1\nq2', 'r1\nr2'))),
]


SMS_THOROUGH = [
    ('sms(ab/cd/ef,3 lines,6 symbolic fields)', SM('ab\ncd\nef', 'AAAA,?AAA;?AAA;?AA?', ('o.js',), ('xy\nuv\nw',))),
    ('sms(abcdefgh,wide columns < 16)', SM('abcdefgh', 'AAAA,?AAA,?AA?', ('o.js',), (), (), None, 16)),
    ('sms(abcd,symbolic names)', SM('abcd', 'AAAA?,CAAA?,CAAA', ('o.js',), (), ('n0', 'n1', 'n2'), None, 8)),
    ('sms(ab/cd,symbolic source index,root r/)', SM('ab\ncd', 'A?AA,C?AA;A?AA', ('o.js', 'p.js', 'q.js'), ('1', '2', '3'), (), 'r/', 8)),
    ('sms(a//b,two empty lines symbolic)', SM('a\n\n\nb', '?AAA;;?;?AAA', ('o.js',))),
    ('nested[[sms(ab/cd),rawstr1],orig1]', CC(BX(CC(SM('ab\ncd', 'AAAA,?AAA;?ACA', ('o.js',)), RS('!'))), O('?', 'b.js'))),
    ('concat[rawstr a/,sms(ab/cd),rawstr /x]', CC(RS('a\n'), SM('ab\ncd', '?AAA,?AAA;AAC?', ('o.js',), ('01\n23',)), RS('\nx'))),
    ('replace(sms(ab/cd named),[sym X/],[sym del])', RP(SM('ab\ncd', 'AAAAA,CAACC;AACA', ('o.js',), ('ab\ncd',), ('n1', 'n2')), (Q, Q, 'X\n'), (Q, Q, ''))),
    ('concat[sms(ab),sms(cd) same source other content]', CC(SM('ab', 'AAAA,?AAA', ('o.js',), ('ab',)), SM('cd', '?AAA,CAAC', ('p.js',), ('cd',)))),
]
COMBINED_THOROUGH = [
    ('combined: 2-line inner, outer line and column symbolic', SMC('ab\ncd', 'AAAA,CA??;AA??', ('i.js',), 'AAAA,CAAC;AACA,CAAC', ('q.js',), 'xyz\nuv', inner_contents=('0123\n4567',))),
    ('combined: inner source index symbolic, 2 inner sources', SMC('abcd', 'AAAA,CAAC', ('i.js',), 'A?AA,C?AC', ('q.js', 'r.js'), 'xyzw', inner_contents=('qq', 'rr'), max=4)),
    ('combined: remove original, outer second source, symbolic', SMC('ab\ncd', 'AAAA,CCA?;ADC?', ('i.js', 'o.js'), '?AAA;AACA', ('q.js',), 'xyz\nuv', remove=True, outer_contents=('xyz\nuv', 'oo'))),
    ('combined: names on both sides symbolic column', SMC('abcdef', 'AAAAA,CAA?C,CAA?', ('i.js',), 'AAAAA,CAACC,CAAC', ('q.js',), 'xyzwvu', outer_names=('xy', 'zw'), inner_names=('n0', 'n1'), inner_contents=('xyzwvu',))),
    ('combined with sourceRoot, rooted name', SMC('ab', 'AAAA,CAA?', ('i.js',), 'AAAA,CAAE', ('q.js',), 'xyz', root='r', name='r/i.js')),
    ('combined with sourceRoot, unrooted name (nothing points into the inner source)', SMC('ab', 'AAAA,CAA?', ('i.js',), 'AAAA,CAAE', ('q.js',), 'xyz', root='r')),
    ('combined under replace', RP(SMC('abcd', 'AAAA,CAA?', ('i.js',), 'AAAA,CAAE', ('q.js',), 'xyzw', inner_contents=('0123456',)), (Q, Q, 'X'))),
]


def combined_jobs(props):
    def f(tier, seed):
        jobs = [J('tree:' + t[0], 'jobs.streams:tree_job', dict(tree=t[1], props=props), timeout=900) for t in COMBINED_QUICK]
        if tier == 'thorough':
            jobs += [J('tree:' + t[0], 'jobs.streams:tree_job', dict(tree=t[1], props=props), required=False, timeout=900) for t in COMBINED_THOROUGH]
        return jobs
    return f


def sms_jobs(props, wild=False):
    def f(tier, seed):
        jobs = []
        for t in (SMS_WILD if wild else SMS_QUICK):
            if len(t) > 2 and not (set(props) & set(t[2])): continue       # a shape outside the quantifier of the other properties
            jobs.append(J('tree:' + t[0], 'jobs.streams:tree_job', dict(tree=t[1], props=props), timeout=600))
        if tier == 'thorough' and not wild:
            for t in SMS_THOROUGH:
                jobs.append(J('tree:' + t[0], 'jobs.streams:tree_job', dict(tree=t[1], props=props), required=False, timeout=900))
        return jobs
    return f


def replace_jobs(props):
    def f(tier, seed):
        jobs = []
        for t in REPLACE_QUICK:
            jobs.append(J('tree:' + t[0], 'jobs.streams:tree_job', dict(tree=t[1], props=props), timeout=600))
        if 'C05' in props:
            for t in HISTORY_QUICK:
                jobs.append(J('tree:' + t[0], 'jobs.streams:tree_job', dict(tree=t[1], props=props, what=['source']), timeout=600))
            for t in MANY_QUICK:
                jobs.append(J('tree:' + t[0], 'jobs.streams:tree_job', dict(tree=t[1], props=props, what=['source'], subs=False), timeout=600))
        if 'C01' in props or 'C07' in props:
            # every observer must use the same (stable) order of equal keys: source() against the chunk stream and rope()
            t = MANY_QUICK[0]
            jobs.append(J('tree:' + t[0] + ' [source vs stream]', 'jobs.streams:tree_job', dict(tree=t[1], props=props, what=['source', 'c1f0'], subs=False), timeout=600))
        if tier == 'thorough':
            for t in REPLACE_THOROUGH:
                jobs.append(J('tree:' + t[0], 'jobs.streams:tree_job', dict(tree=t[1], props=props), required=False, timeout=900))
        return jobs
    return f


VIEWS = ['source', 'rope', 'buffer', 'size', 'writer', 'writerfail']


BIN_TREES = [
    ('concat[rawbuf invalid utf8,rawstr]', CC({'kind': 'rawbuf', 'text': '', 'bytes': [97, 255, 98]}, RS('!'))),
    ('concat[raw buffer e2 82,orig]', CC({'kind': 'raw', 'text': '', 'bytes': [0xE2, 0x82]}, O('a'))),
    ('rawbuf invalid utf8', {'kind': 'rawbuf', 'text': '', 'bytes': [0xC3, 40, 0x80]}),
    ('cached(concat[rawbuf,rawbuf])', CA(CC({'kind': 'rawbuf', 'text': '', 'bytes': [0xF0, 0x9F]}, {'kind': 'rawbuf', 'text': '', 'bytes': [0x98, 0x80]}))),
    ('replace(rawbuf invalid utf8,[])', RP({'kind': 'rawbuf', 'text': '', 'bytes': [97, 255, 98]})),
    ('concat[replace(raw invalid utf8,[]),rawstr]', CC(RP({'kind': 'raw', 'text': '', 'bytes': [0xE2, 0x82, 97]}), RS('!'))),
    ('cached(replace(rawbuf invalid utf8,[X at 0]))', CA(RP({'kind': 'rawbuf', 'text': '', 'bytes': [97, 255, 98]}, (0, 1, 'X')))),
]


def views_jobs(tier, seed):
    jobs = [J('views:' + t[0], 'jobs.streams:tree_job', dict(tree=t[1], props=['C07'], what=VIEWS), timeout=600) for t in BIN_TREES]
    for cat in (TREES_QUICK, REPLACE_QUICK, SMS_QUICK[:4]):
        for t in cat:
            jobs.append(J('views:' + t[0], 'jobs.streams:tree_job', dict(tree=t[1], props=['C07'], what=VIEWS, alphabet=t[2] if len(t) > 2 and isinstance(t[2], str) else 'q'), timeout=600))
    # the same ReplaceSource trees with rope() (then size, buffer) as the FIRST call after the last mutation: no earlier observer has sorted
    for t in REPLACE_QUICK[:9] + HISTORY_QUICK:
        jobs.append(J('views/rope-first:' + t[0], 'jobs.streams:tree_job', dict(tree=t[1], props=['C07'], what=['rope', 'size', 'buffer', 'source', 'writer']), timeout=600))
        jobs.append(J('views/size-first:' + t[0], 'jobs.streams:tree_job', dict(tree=t[1], props=['C07'], what=['size', 'writer', 'rope', 'source', 'buffer']), timeout=600))
    if tier == 'thorough':
        for cat in (TREES_THOROUGH, REPLACE_THOROUGH, SMS_QUICK[4:], COMBINED_QUICK[:4], [(n, t) for (n, t, _) in C10_QUICK]):
            for t in cat:
                jobs.append(J('views:' + t[0], 'jobs.streams:tree_job', dict(tree=t[1], props=['C07'], what=VIEWS, alphabet=t[2] if len(t) > 2 and isinstance(t[2], str) else 'q'), required=False, timeout=900))
    return jobs


OBS10 = ['source', 'size', 'c1f0', 'c0f0', 'c1f1', 'c0f1', 'map1', 'map0']
C10_QUICK = [
    ('cached(concat[orig a;,empty,rawstr]) x 2 symbolic ops (pending close over an empty child, both fill paths)', CA(CC(O('a;'), RS(''), RS('!'))), dict(history_slots=2)),
    ('cached(orig: second statement at column 512, a 3-digit VLQ border) after stream', CA(O('a' * 511 + ';b;')), dict(history=['c1f0'], what=['c1f0', 'map1', 'source'], loop_bound=1200)),
    ('cached(concat[orig a;/?,rawstr1]) x 2 symbolic ops', CA(CC(O('a;\n?'), RS('!'))), dict(history_slots=2)),
    ('cached(orig sym2) x 2 symbolic ops', CA(O('??')), dict(history_slots=2)),
    ('cached(replace(orig ab;c,[sym X named])) after stream + 1 symbolic op', CA(RP(O('ab;c'), (Q, Q, 'X', 'n'))), dict(history=['c1f0'], history_slots=1)),
    ('cached(sms 2 lines) x 2 symbolic ops', CA(SM('abcd\nef', 'AAAA,?AAAA;AAAA', ('o.js', 'p.js'), ('xyz\nuv',), ('nm', 'n2'), 'r')), dict(history_slots=2)),
    ('cached(rawstr) x 3 symbolic ops', CA(RS('!\n!')), dict(history_slots=3)),
    ('cached(orig a;/b) x 3 symbolic ops', CA(O('a;\nb')), dict(history_slots=3)),
    ('concat[cached(orig2),rawstr1] after map,stream', CC(CA(O('??')), RS('!')), dict(history=['map1', 'c1f0', 'map0'], alt='uncached')),
    ('replace(cached(orig a;b),[sym X]) after map,stream', RP(CA(O('a;b')), (Q, Q, 'X')), dict(history=['map1', 'c1f0', 'source'], alt='uncached')),
    ('cached(concat[rawstr,orig blank lines,rawstr]) x 2 symbolic ops', CA(CC(RS('x\n'), O('\n\n'), RS('y'))), dict(history_slots=2)),
    ('cached(concat[orig a,orig b other file]) x 2 symbolic ops', CA(CC(O('a'), O('b', 'b.js'), RS('!'))), dict(history_slots=2)),
    ('cached(cached(orig2)) x 2 symbolic ops', CA(CA(O('??'))), dict(history_slots=2, alt='uncached')),
    ('cached(concat[orig a;,rawstr b/c/,orig d]) x 2 symbolic ops', CA(CC(O('a;'), RS('!\n!\n'), O('d?', 'b.js'))), dict(history_slots=2)),
    ('cached(concat[sms without contents,orig with content]) x 2 symbolic ops', CA(CC(SM('ab', 'AAAA', ('o.js',)), O('c?', 'b.js'))), dict(history_slots=2)),
    ('concat[cached(concat[orig x/??,orig c? b]),orig z c] (real rope.rs) after map', CC(CA(CC(O('x\n??'), O('c?', 'b.js'))), O('z', 'c.js')), dict(history=['map1'], alt='uncached', rope='real')),
    ('concat[cached(concat[rawstr a/b,rawstr c]),orig z] (real rope.rs) x 1 symbolic op', CC(CA(CC(RS('!\n!'), RS('!'))), O('z?')), dict(history_slots=1, alt='uncached', rope='real')),
    ('cached(replace(orig abcd,[sym OUT],[sym in])) after stream', CA(RP(O('abcd'), (Q, Q, 'OUT'), (Q, Q, 'in'))), dict(history=['c1f0'])),
]


C10_THOROUGH = [
    ('cached(concat[orig a;/?,rawstr1]) x 4 symbolic ops', CA(CC(O('a;\n?'), RS('!'))), dict(history_slots=4)),
    ('cached(orig sym3) x 3 symbolic ops', CA(O('???')), dict(history_slots=3)),
    ('cached(replace(orig ab;c,[sym X named],[sym del])) x 2 symbolic ops', CA(RP(O('ab;c'), (Q, Q, 'X', 'n'), (Q, Q, ''))), dict(history_slots=2)),
    ('cached(sms 2 lines symbolic digits) x 3 symbolic ops', CA(SM('abcd\nef', 'AAAA,?AAAA;?AAA', ('o.js', 'p.js'), ('xyz\nuv',), ('nm', 'n2'), 'r')), dict(history_slots=3)),
    ('cached(combined) x 2 symbolic ops', CA(SMC('ab\ncd', 'AAAA,CAAC;AAC?', ('i.js',), 'AAAA,?AAC', ('q.js',), 'xyz\nuv')), dict(history_slots=2)),
    ('cached(nested[[orig2,rawstr1],rawstr1]) x 2 symbolic ops', CA(CC(BX(CC(O('??'), RS('!'))), RS('!'))), dict(history_slots=2)),
    ('concat[cached(orig a;),cached(orig b other file)] x 2 symbolic ops', CC(CA(O('a;')), CA(O('?', 'b.js'))), dict(history_slots=2, alt='uncached')),
    ('cached(replace(cached(orig a;b),[sym X])) x 2 symbolic ops', CA(RP(CA(O('a;b')), (Q, Q, 'X'))), dict(history_slots=2, alt='uncached')),
    ('cached(empty concat) x 2 symbolic ops', CA(CC()), dict(history_slots=2)),
    ('cached(rawbuf a/b) x 3 symbolic ops', CA(RB('!\n!')), dict(history_slots=3)),
]


def c10_jobs(tier, seed):
    jobs = []
    if tier == 'thorough':
        for t in C10_THOROUGH:
            p = dict(tree=t[1], props=['C10'], alt='inner', alt_prop='C10', what=OBS10)
            p.update(t[2])
            jobs.append(J('cached:' + t[0], 'jobs.streams:tree_job', p, required=False, timeout=900))
            p2 = dict(p, what=['map0', 'map1', 'c0f1', 'c1f1', 'c0f0', 'c1f0', 'source'], history_slots=min(2, t[2]['history_slots']))
            jobs.append(J('cached/maps-first:' + t[0], 'jobs.streams:tree_job', p2, required=False, timeout=900))
    for t in C10_QUICK:
        p = dict(tree=t[1], props=['C10'], alt='inner', alt_prop='C10', what=OBS10)
        p.update(t[2])
        jobs.append(J('cached:' + t[0], 'jobs.streams:tree_job', p, timeout=900))
        if 'history_slots' in t[2]:
            # the same histories observed in the opposite order (maps before streams): a cold map() after the history
            p2 = dict(p, what=['map0', 'map1', 'c0f1', 'c1f1', 'c0f0', 'c1f0', 'source'], history_slots=min(2, t[2]['history_slots']))
            jobs.append(J('cached/maps-first:' + t[0], 'jobs.streams:tree_job', p2, timeout=900))
    return jobs


C18_QUICK = [
    ('cached(orig): map || stream,stream', CA(O('a;b')), [['map1'], ['c1f0', 'c1f0']], 6),
    ('cached(orig): stream || stream', CA(O('a;b')), [['c1f0'], ['c1f0']], 6),
    ('cached(orig): map || map', CA(O('a;b')), [['map1'], ['map1']], 6),
    ('cached(orig): map,stream || stream,map', CA(O('a;b')), [['map1', 'c1f0'], ['c1f0', 'map1']], 5),
    ('cached(orig): lines map || columns stream', CA(O('a;\nb')), [['map0', 'c0f0'], ['c1f0', 'map1']], 5),
    ('cached(orig): clone,map || stream', CA(O('a;b')), [['clone', 'map1'], ['c1f0', 'c1f0']], 5),
    ('cached(orig): hash || hash,source', CA(O('a;b')), [['hash', 'map1'], ['hash', 'source']], 6),
    ('cached(replace): map || stream,stream', CA(RP(O('ab;c'), (1, 2, 'X', 'n'))), [['map1'], ['c1f0', 'c1f0']], 5),
    ('replace(orig,2 unsorted): source || source', RP(O('abcd'), (2, 3, 'X'), (0, 1, 'Y')), [['source'], ['source']], 8),
    ('replace(orig,2 unsorted): clone,source || source', RP(O('abcd'), (2, 3, 'X'), (0, 1, 'Y')), [['clone', 'source'], ['source']], 8),
    ('replace(orig,2 unsorted): hash || stream', RP(O('abcd'), (2, 3, 'X'), (0, 1, 'Y')), [['hash', 'source'], ['c1f0']], 6),
    ('replace(orig,2 unsorted): map || clone,map', RP(O('ab;d'), (2, 3, 'X'), (0, 1, 'Y')), [['map1'], ['clone', 'map1']], 6),
    ('rawbuf: source || source,size', RB('a\nb'), [['source'], ['source', 'size']], 6),
    ('raw(string): source || stream', R('a\nb'), [['source'], ['c1f0']], 6),
    ('concat[cached(orig),rawbuf]: map || stream', CC(CA(O('a;')), RB('b')), [['map1'], ['c1f0', 'source']], 5),
]


def c18_jobs(tier, seed):
    jobs = [J('threads:' + t[0], 'jobs.conc:conc_job', dict(tree=t[1], progs=t[2], max_switches=t[3]), timeout=900) for t in C18_QUICK]
    if tier == 'thorough':
        jobs += [J('threads+2:' + t[0], 'jobs.conc:conc_job', dict(tree=t[1], progs=t[2], max_switches=t[3] + 3), required=False, timeout=900) for t in C18_QUICK]
    return jobs


SMX = SM('ab\ncd', 'AAAA;AACA', ('o.js',), ('xy\nuv',), ('n',))
EQ_QUICK = [
    ('orig', O('a?'), 1), ('raw', R('!a'), 1), ('rawstr', RS('!a'), 1), ('rawbuf', RB('!a'), 1),
    ('sms', SMX, 1), ('sms combined', SMC('ab', 'AAAA,CAAC', ('i.js',), 'AAAA', ('q.js',), 'xyz'), 1),
    ('concat[orig,rawstr]', CC(O('a?'), RS('!')), 1), ('concat[]', CC(), 0), ('nested concat', CC(BX(CC(O('?'), RS('a'))), RB('b')), 1),
    ('replace 2 unsorted', RP(O('abcd'), (2, 3, 'X', 'n'), (0, 1, 'Y')), 2), ('replace none', RP(O('a?')), 1),
    ('cached(orig)', CA(O('a?')), 2), ('cached(replace)', CA(RP(O('abc'), (1, 2, 'X'))), 1),
    ('cached(concat[sms without contents,orig])', CA(CC(SM('ab', 'AAAA', ('o.js',)), O('c?', 'b.js'))), 2),
    ('raw binary', {'kind': 'raw', 'text': '', 'bytes': [0xE2, 0x82, 97]}, 1), ('rawbuf binary', {'kind': 'rawbuf', 'text': '', 'bytes': [0xF8, 97]}, 1),
]
EQ_PAIRS = [
    ('replace: hash between the mutations vs all at once', RP(O('abcd'), (2, 3, 'X', None, 1, ['hash']), (0, 1, 'Y')), RP(O('abcd'), (2, 3, 'X'), (0, 1, 'Y'))),
    ('replace: source between the mutations vs all at once', RP(O('abcd'), (2, 3, 'X', 'n', 1, ['source']), (0, 1, 'Y'), (3, 4, 'Z', None, 0, ['hash'])), RP(O('abcd'), (2, 3, 'X', 'n'), (0, 1, 'Y'), (3, 4, 'Z', None, 0))),
]
EQ_PAIRS += [
    ('replace: out-of-order pair, observation, then one in between', RP(O('abcdefgh'), (6, 7, 'X'), (1, 2, 'Y', None, 1, ['source']), (3, 4, 'Z')), RP(O('abcdefgh'), (6, 7, 'X'), (1, 2, 'Y'), (3, 4, 'Z'))),
    ('replace: out-of-order pair, hash, then an equal key', RP(O('abcdefgh'), (6, 7, 'X'), (1, 2, 'Y', None, 1, ['hash']), (6, 7, 'Z'), (1, 1, 'W')), RP(O('abcdefgh'), (6, 7, 'X'), (1, 2, 'Y'), (6, 7, 'Z'), (1, 1, 'W'))),
]
def _e(a, b, dyn=False): return (a, b, dyn)
NEQ_QUICK = [
    ('orig text', _e(O('a?'), O('b?'))), ('orig name', _e(O('a?'), O('a?', 'b.js'))), ('orig longer', _e(O('a'), O('a;'))),
    ('raw vs rawstr same text', _e(R('ab'), RS('ab'), True)), ('raw vs rawbuf same text', _e(R('ab'), RB('ab'), True)), ('orig vs rawstr', _e(O('ab'), RS('ab'), True)),
    ('rawbuf bytes', _e(RB('a!'), RB('b!'))), ('raw string vs raw text', _e(R('a\n'), R('a'))),
    ('replace start', _e(RP(O('abcd'), (1, 3, 'X')), RP(O('abcd'), (2, 3, 'X')))), ('replace end', _e(RP(O('abcd'), (1, 2, 'X')), RP(O('abcd'), (1, 3, 'X')))),
    ('replace content', _e(RP(O('abcd'), (1, 2, 'X')), RP(O('abcd'), (1, 2, 'Y')))), ('replace name', _e(RP(O('abcd'), (1, 2, 'X', 'n')), RP(O('abcd'), (1, 2, 'X', 'm')))),
    ('replace name presence', _e(RP(O('abcd'), (1, 2, 'X', 'n')), RP(O('abcd'), (1, 2, 'X')))), ('replace enforce', _e(RP(O('abcd'), (1, 1, 'X', None, 0)), RP(O('abcd'), (1, 1, 'X', None, 2)))),
    ('replace presence', _e(RP(O('abcd'), (1, 2, 'X')), RP(O('abcd')))), ('replace inner', _e(RP(O('abcd'), (1, 2, 'X')), RP(O('abce'), (1, 2, 'X')))),
    ('replace order of equal keys', _e(RP(O('abcd'), (1, 1, 'X'), (1, 1, 'Y')), RP(O('abcd'), (1, 1, 'Y'), (1, 1, 'X')))),
    ('sms mappings', _e(SMX, SM('ab\ncd', 'AAAA;AACC', ('o.js',), ('xy\nuv',), ('n',)))), ('sms sources', _e(SMX, SM('ab\ncd', 'AAAA;AACA', ('p.js',), ('xy\nuv',), ('n',)))),
    ('sms contents', _e(SMX, SM('ab\ncd', 'AAAA;AACA', ('o.js',), ('xy\nuw',), ('n',)))), ('sms names', _e(SMX, SM('ab\ncd', 'AAAA;AACA', ('o.js',), ('xy\nuv',), ('m',)))),
    ('sms root', _e(SMX, SM('ab\ncd', 'AAAA;AACA', ('o.js',), ('xy\nuv',), ('n',), 'r'))), ('sms text', _e(SMX, SM('ab\nce', 'AAAA;AACA', ('o.js',), ('xy\nuv',), ('n',)))),
    ('sms inner map presence', _e(SMC('ab', 'AAAA', ('i.js',), 'AAAA', ('q.js',), 'xyz'), dict(SM('ab', 'AAAA', ('i.js',)), name='i.js'))),
    ('sms inner map', _e(SMC('ab', 'AAAA', ('i.js',), 'AAAA', ('q.js',), 'xyz'), SMC('ab', 'AAAA', ('i.js',), 'AAAC', ('q.js',), 'xyz'))),
    ('sms remove flag', _e(SMC('ab', 'AAAA', ('i.js',), 'AAAA', ('q.js',), 'xyz', remove=True), SMC('ab', 'AAAA', ('i.js',), 'AAAA', ('q.js',), 'xyz'))),
    ('sms remove flag without original_source (content from the outer map)', _e(SMC('ab\ncd', 'AAAA;AACA', ('i.js',), 'AAAA', ('q.js',), None, outer_contents=('xy\nuv',), remove=True), SMC('ab\ncd', 'AAAA;AACA', ('i.js',), 'AAAA', ('q.js',), None, outer_contents=('xy\nuv',)))),
    ('sms original source', _e(SMC('ab', 'AAAA', ('i.js',), 'AAAA', ('q.js',), 'xyz'), SMC('ab', 'AAAA', ('i.js',), 'AAAA', ('q.js',), 'xyw'))),
    ('concat child', _e(CC(O('a'), RS('b')), CC(O('a'), RS('c')))), ('concat order', _e(CC(RS('a'), RS('b')), CC(RS('b'), RS('a')))),
    ('concat prefix', _e(CC(O('a'), RS('b')), CC(O('a'), RS('b'), RS('c')))), ('concat empty vs one', _e(CC(), CC(RS('a')))),
    ('concat cut', _e(CC(RS('ab'), RS('c')), CC(RS('a'), RS('bc')))), ('concat child type', _e(CC(RS('a')), CC(R('a')))),
    ('raw binary byte inside an invalid sequence', _e({'kind': 'raw', 'text': '', 'bytes': [0xF8, 97]}, {'kind': 'raw', 'text': '', 'bytes': [0xF9, 97]})),
    ('rawbuf binary truncated sequences', _e({'kind': 'rawbuf', 'text': '', 'bytes': [0xE2]}, {'kind': 'rawbuf', 'text': '', 'bytes': [0xE2, 0x82]})),
    ('concat[raw binary] child bytes', _e(CC({'kind': 'raw', 'text': '', 'bytes': [0xC3]}, RS('a')), CC({'kind': 'raw', 'text': '', 'bytes': [0xE2]}, RS('a')))),
    ('replace added after an observation', _e(RP(O('abcd'), (2, 3, 'X', None, 1, ['hash']), (0, 1, 'Y')), RP(O('abcd'), (2, 3, 'X')))),
    ('concat empty original child presence', _e(CC(O('', 'e.js'), O('a')), CC(O('a')))), ('concat empty original child name', _e(CC(O('', 'e.js'), O('a')), CC(O('', 'f.js'), O('a')))),
    ('sms debug id presence', _e(SMX, dict(SMX, map=dict(SMX['map'], debugId='d1')))), ('sms debug id value', _e(dict(SMX, map=dict(SMX['map'], debugId='d1')), dict(SMX, map=dict(SMX['map'], debugId='d2')))),
    ('sms surplus sourcesContent entry', _e(SM('ab', 'AAAA', ('o.js',), ('xy', 's1')), SM('ab', 'AAAA', ('o.js',), ('xy', 's2')))), ('sms surplus sourcesContent presence', _e(SM('ab', 'AAAA', ('o.js',), ('xy', 's1')), SM('ab', 'AAAA', ('o.js',), ('xy',)))),
    ('cached(sms) debug id', _e(CA(dict(SMX, map=dict(SMX['map'], debugId='d1'))), CA(SMX))),
    ('cached inner', _e(CA(O('a?')), CA(O('b?')))), ('cached vs plain', _e(CA(O('ab')), O('ab'), True)), ('boxed concat vs flat leaf', _e(CC(RS('ab')), RS('ab'), True)),
]


def eq_jobs(tier, seed):
    jobs = []
    for name, t, slots in EQ_QUICK:
        jobs.append(J('eq:' + name, 'jobs.eqhash:eqhash_job', dict(tree_a=t, history_slots=slots), timeout=600))
        jobs.append(J('eq/dyn:' + name, 'jobs.eqhash:eqhash_job', dict(tree_a=t, history_slots=min(slots, 1), dyn=True), timeout=600))
    for name, a, b in EQ_PAIRS:
        jobs.append(J('eq:' + name, 'jobs.eqhash:eqhash_job', dict(tree_a=a, tree_b=b, history_slots=0), timeout=600))
        jobs.append(J('eq+history:' + name, 'jobs.eqhash:eqhash_job', dict(tree_a=b, tree_b=a, history_slots=1), timeout=600))
    if tier == 'thorough':
        for name, t, slots in EQ_QUICK:
            jobs.append(J('eq+1:' + name, 'jobs.eqhash:eqhash_job', dict(tree_a=t, history_slots=slots + 1), required=False, timeout=900))
            jobs.append(J('eq/dyn+1:' + name, 'jobs.eqhash:eqhash_job', dict(tree_a=t, history_slots=min(slots, 1) + 1, dyn=True), required=False, timeout=900))
    return jobs


SMY = dict(SMX, name='y.js')
STABLE_QUICK = [
    ('cached(sms) pair differing only in the (unhashed) name, hash on both', CA(SMX), CA(SMY), False, ['hash'], ['hash']),
    ('cached(sms) name pair through dyn, hash on both', CA(SMX), CA(SMY), True, ['hash'], ['hash']),
    ('cached(orig) different texts, hash + map on both', CA(O('a?')), CA(O('b?')), False, ['hash', 'map1'], ['hash', 'c1f0']),
    ('cached(orig) same ingredients, hash on one, stream on the other', CA(O('a?')), CA(O('a?')), False, ['hash'], ['c1f0']),
    ('cached(concat) vs cached(concat) one child apart, hash on both', CA(CC(O('a?'), RS('!'))), CA(CC(O('a?'), RS('!'), RS(''))), False, ['hash'], ['hash']),
    ('replace pair differing in a name, source + hash on both', RP(O('abcd'), (2, 3, 'X', 'n'), (0, 1, 'Y')), RP(O('abcd'), (2, 3, 'X', 'm'), (0, 1, 'Y')), False, ['source', 'hash'], ['hash']),
    ('rawbuf same bytes, source on one', RB('!a'), RB('!a'), False, ['source'], []),
    ('sms pair differing only in the name, map on both', SMX, SMY, False, ['map1'], ['hash']),
]


def stable_jobs(tier, seed):
    return [J('stable:' + n, 'jobs.eqhash:eq_stable_job', dict(tree_a=a, tree_b=b, dyn=d, history_a=ha, history_b=hb), timeout=600) for n, a, b, d, ha, hb in STABLE_QUICK]


def neq_jobs(tier, seed):
    jobs = []
    for name, (a, b, dyn) in NEQ_QUICK:
        jobs.append(J('neq:' + name, 'jobs.eqhash:eqhash_job', dict(tree_a=a, tree_b=b, relation='differ', dyn=dyn), timeout=600))
        if not dyn: jobs.append(J('neq/dyn+history:' + name, 'jobs.eqhash:eqhash_job', dict(tree_a=a, tree_b=b, relation='differ', dyn=True, history_slots=1), timeout=600))
    if tier == 'thorough':
        for name, (a, b, dyn) in NEQ_QUICK:
            jobs.append(J('neq+2:' + name, 'jobs.eqhash:eqhash_job', dict(tree_a=a, tree_b=b, relation='differ', dyn=dyn, history_slots=2), required=False, timeout=900))
            jobs.append(J('neq/swapped+1:' + name, 'jobs.eqhash:eqhash_job', dict(tree_a=b, tree_b=a, relation='differ', dyn=dyn, history_slots=1), required=False, timeout=900))
    return jobs


C13_THOROUGH = [
    ('flat:nested[[orig3,rawstr2],orig2b]', CC(BX(CC(O('???'), RS('!!'))), O('??', 'b.js')), 'flat'),
    ('flat:nested[[orig2,rawstr1],[rawstr1,orig2b]]', CC(BX(CC(O('??'), RS('!'))), BX(CC(RS('!'), O('??', 'b.js')))), 'flat'),
    ('flat:nested4[[[[orig2]],rawstr1],rawstr1]', CC(BX(CC(BX(CC(BX(CC(O('??'))))), RS('!'))), RS('!')), 'flat'),
    ('flat:nested[[sms(ab/cd),rawstr1],orig1]', CC(BX(CC(SM('ab\ncd', 'AAAA,?AAA;?ACA', ('o.js',)), RS('!'))), O('?', 'b.js')), 'flat'),
    ('flat:nested[[replace(orig ab;c,[sym X])],rawstr1]', CC(BX(CC(RP(O('ab;c'), (Q, Q, 'X')))), RS('!')), 'flat'),
    ('flat:nested[cached(concat[orig2,rawstr1]),rawstr1]', CC(BX(CA(CC(O('??'), RS('!')))), RS('!')), 'uncached'),
    ('noempty:concat[empty,empty,orig3,empty,empty]', CC(RS(''), O('', 'e.js'), O('???'), BX(CC()), RS('')), 'noempty'),
    ('inner:boxed(boxed(replace(orig a;b,[sym X])))', BX(BX(RP(O('a;b'), (Q, Q, 'X')))), 'inner'),
    ('inner:single[sms(ab/cd)]', CC(SM('ab\ncd', 'AAAA,?AAA;?ACA', ('o.js',))), 'inner'),
    ('inner:replace(sms(abcd named),[])', RP(SM('abcd', 'AAAAA,?AAEC', ('o.js',), ('abcd',), ('n1', 'n2'))), 'inner'),
    ('inner:replace(concat[orig ab,rawstr c/d],[])', RP(CC(O('a?'), RS('c\n!'))), 'inner'),
    ('inner:single[orig4]/t', CC(O('????')), 'inner', 't'),
]


def c13_jobs(tier, seed):
    jobs = []
    for t in C13_QUICK:
        if t[2] == 'inner-if-empty': continue
        jobs.append(J('tree:' + t[0], 'jobs.streams:tree_job', dict(dict(tree=t[1], props=['C13'], alt=t[2]), **(t[3] if len(t) > 3 else {})), timeout=600))
    if tier == 'thorough':
        for t in C13_THOROUGH:
            jobs.append(J('tree:' + t[0], 'jobs.streams:tree_job', dict(tree=t[1], props=['C13'], alt=t[2], alphabet=t[3] if len(t) > 3 else 'q'), required=False, timeout=900))
    return jobs


# CachedSource replay is a streaming path of its own (stored map + rope() of the inner source, measured line by line): the stream
# properties must hold on it as well. Each tree is observed AFTER a history that fills the cache; the ones marked rope='real'
# interpret rope.rs itself, because the replay derives the generated end position from Rope::lines / Rope::len.
CACHED_QUICK = [
    ('cached(replace(orig ab;c,[sym X named])) cold cache, lines-only stream first (names announced through the fill pass)', CA(RP(O('ab;c'), (Q, Q, 'X', 'n'))), dict(what=['c0f0', 'c1f0', 'map0', 'map1', 'source'])),
    ('replace(cached(concat[orig a;,rawstr]),[sym X]) after map (the cached map ends a line with a generated-only segment)', RP(CA(CC(O('a;'), RS('!!\n!'))), (Q, Q, 'X')), dict(history=['map1'])),
    ('cached(orig a;//?) after map(columns): lines-only MAP observed first (a blank line is mapped only line by line)', CA(O('a;\n\n?')), dict(history=['map1'], what=['map0', 'c0f0', 'c0f1', 'map1', 'c1f0', 'source'])),
    ('cached(concat[rawstr,orig of line breaks only]) after map(columns)=None: lines-only MAP observed first', CA(CC(RS('!'), O('\n\n'))), dict(history=['map1'], what=['map0', 'c0f0', 'map1', 'c1f0', 'source'])),
    ('cached(replace(sms 2 segments on a line,[sym del])) after a columns stream: lines-only MAP observed first', CA(RP(SM('abcd', 'AAIA,EAEA', ('o.js',)), (Q, Q, ''))), dict(history=['c1f0'], what=['map0', 'c0f0', 'map1', 'c1f0', 'source'])),
    ('concat[cached(concat[orig x/??,orig c? b]),orig z c] (real rope.rs) after map', CC(CA(CC(O('x\n??'), O('c?', 'b.js'))), O('z', 'c.js')), dict(history=['map1'], rope='real')),
    ('concat[rawstr,cached(concat[orig a?;b,rawstr2]),rawstr /,orig c?; b] after a stream of the parent', CC(RS('!'), CA(CC(O('a?;b'), RS('!!'))), RS('\n'), O('c?;', 'b.js')), dict(history=['c1f0'])),
    ('cached(replace(orig abcd,[sym OUT],[sym in])) after stream', CA(RP(O('abcd'), (Q, Q, 'OUT'), (Q, Q, 'in'))), dict(history=['c1f0'])),
    ('concat[replace(orig a;,[X/Y beyond end],[Z beyond end]),orig d?;e b] (real rope.rs)', CC(RP(O('a;'), (5, 5, 'X\nY'), (6, 6, 'Z')), O('d?;e', 'b.js')), dict(rope='real')),
    ('concat[cached(replace(rawstr a/b,[X/Y beyond end],[Z beyond end])),orig d? b] (real rope.rs) after stream', CC(CA(RP(RS('a\nb'), (5, 5, 'X\nY'), (6, 6, 'Z'))), O('d?', 'b.js')), dict(history=['c1f0'], rope='real')),
    ('cached(concat[sms(ab/cd),rawstr1]) after map (lines)', CA(CC(SM('ab\ncd', 'AAAA,?AAA;?ACA', ('o.js',), ('xy\nuv',)), RS('!'))), dict(history=['map0'])),
]


def cached_jobs(props):
    def f(tier, seed):
        jobs = []
        for t in CACHED_QUICK:
            p = dict(tree=t[1], props=props); p.update(t[2])
            jobs.append(J('tree:' + t[0], 'jobs.streams:tree_job', p, timeout=900))
        return jobs
    return f


def tree_jobs(props):
    def f(tier, seed):
        jobs = [J('tv_trees', 'jobs.streams:tv_trees', dict(n=60 if tier == 'quick' else 300, seed=seed), timeout=600)]
        for t in TREES_QUICK:
            jobs.append(J('tree:' + t[0], 'jobs.streams:tree_job', dict(tree=t[1], props=props, alphabet=t[2] if len(t) > 2 else 'q'), timeout=420))
        if tier == 'thorough':
            for t in TREES_THOROUGH:
                jobs.append(J('tree:' + t[0], 'jobs.streams:tree_job', dict(tree=t[1], props=props, alphabet=t[2] if len(t) > 2 else 'q'), required=False, timeout=900))
        return jobs
    return f


TREE_BOUNDS = {'quick': 'source trees of the catalog lib/props.py:TREES_QUICK - leaves OriginalSource / RawSource / RawStringSource / RawBufferSource with <= 4 symbolic bytes per tree over the alphabet {a ; } space \\n} (raw leaves: {a, \\n}), ConcatSource with <= 3 children, nested boxed ConcatSource to depth 2, empty children; all four (columns x final) streams, source(), map() for both column settings; CachedSource replay trees (catalog CACHED_QUICK: cache filled by map() or by a stream of the parent, then observed; two of them with rope.rs itself interpreted)',
               'thorough': 'as quick plus TREES_THOROUGH: <= 5 symbolic bytes, alphabet with { and tab, depth 3, <= 4 children'}
RTREE_BOUNDS = {k: v + '; ReplaceSource over Raw/Original/ConcatSource/ReplaceSource inners with <= 4 replacements whose start/end are SYMBOLIC (every start <= end <= len+1, i.e. overlapping, nested, touching, beyond the end), contents from {empty, X, X\\n, X\\nY, \\nY}, named and unnamed, all three enforce values (catalog REPLACE_QUICK / REPLACE_THOROUGH)' for k, v in TREE_BOUNDS.items()}
TREE_OUTSIDE = 'longer texts, other characters than the alphabet classes (line break / brace / blank / other), deeper trees than the catalog (argued by the contract-children induction of DESIGN 4.2, not machine-checked), non-ASCII text'
TREE_ASSUME = ['symbolic text bytes range over the stated ASCII alphabet; the oracles depend only on character classes, which every explored path is checked to determine',
               'Rope is used by contract "behaves as the flat string" (textmodel.py) except in the jobs marked (real rope.rs), where rope.rs is interpreted from its MIR as well; the real rope.rs on its own is the subject of C16']

# ------------------------------------------------------------------------------------------------ rope.rs (real code)
ALLOBS = ['basic', 'bytes', 'chars', 'lines', 'pairs']
ROPE_QUICK = [
    ('mixed', [['from', '?b\n?'], ['add', 0, 'c?'], ['from_iter', ['?b', '\n?c?']], ['new'], ['add', 2, '?'], ['from', 'a\n'], ['append', 3, 2]], ALLOBS),
    ('light vs full prefix', [['from', '?bc'], ['from_iter', ['?', 'b']], ['from_iter', ['a', 'b', 'c']], ['from_iter', ['a', 'b', 'b']], ['from_iter', ['ab', 'c']]], ['basic', 'pairs']),
    ('slice with empty pieces', [['from', '?\n'], ['new'], ['add', 1, '?'], ['append', 0, 1], ['slice', 0, '?', '?']], ALLOBS),
    ('multi-byte slice', [['from_iter', ['\u00e9?', '\n\u20ac', '?']], ['slice', 0, '?', '?']], ['basic', 'bytes', 'chars', 'lines']),
    ('empty multi-piece', [['from_iter', ['']], ['from_iter', ['', '']], ['new'], ['slice', 0, '?', '?']], ALLOBS),
    ('4 pieces cut inside lines', [['from_iter', ['?\n?', '?', '?\n', '?']], ['from', 'a\nbb\nc'], ['slice', 0, '?', '?']], ALLOBS),
    ('slice of slice', [['from_iter', ['??', '??', '??']], ['slice', 0, '?', '?'], ['slice', 1, '?', '?']], ['basic', 'bytes', 'chars', 'pairs']),
    ('append full+full, light+full', [['from_iter', ['?', '?']], ['from_iter', ['?\n', '?']], ['append', 0, 1], ['from', '?'], ['append', 2, 0], ['clone', 2], ['add', 3, '?']], ALLOBS),
    ('line across 4 fragments', [['from_iter', ['a\n?', '?', '?', '?\n?']], ['from_iter', ['?', '\n', '?', '?', '\n']]], ['basic', 'lines', 'pairs']),
    ('light ropes', [['from', '?\n?\n'], ['from', ''], ['from', '\u00e9\n'], ['slice', 0, '?', '?']], ALLOBS),
    # a line yielded by lines() is a Rope of its own: every observer must treat it like its flat string (offsets, len, bytes)
    ('lines as ropes: last line across pieces', [['from_iter', ['x\n?b', 'c?']], ['line', 0, 1], ['line', 0, 0], ['from_iter', ['?\n', 'a\n?', '?', '?b']], ['line', 3, 2], ['line', 3, 1]], ALLOBS),
    ('lines as ropes: middle line across pieces, slice of a line', [['from_iter', ['a\n?', '?', '?\n?', '\n']], ['line', 0, 1], ['line', 0, 2], ['line', 0, 3], ['slice', 1, '?', '?']], ALLOBS),
    # binary observers over multi-byte text cut into different pieces (a cut of one rope inside a character of the other)
    ('multi-byte pairs', [['from_iter', ['\u00e9', '?b']], ['from_iter', ['a\u20ac', '']], ['from_iter', ['\u20acb', 'y']], ['from_iter', ['\u00e9', 'x']], ['from', '\u00e9?b']], ['basic', 'pairs']),
] + [('slice form %s' % f_, [['from_iter', ['?a', '\u00e9?', '']], ['slice', 0, '?', '?', f_]], ['basic', 'bytes']) for f_ in ('to', 'to_incl', 'from', 'incl')] + [
    ('light slice form %s' % f_, [['from', '?\u00e9?'], ['slice', 0, '?', '?', f_]], ['basic']) for f_ in ('to', 'to_incl', 'from', 'incl')]
ROPE_QUICK += [
    ('two line ends inside one piece of a multi-piece rope', [['from_iter', ['?\n?\n', '??']], ['from_iter', ['x\nyy\n', '?\n', '12']], ['from_iter', ['a\nb\n', '?']], ['from_iter', ['?\n\n', '\n?', '\n']]], ['basic', 'lines']),
    ('prefix / suffix arguments with trailing and leading empty pieces', [['from', 'a'], ['new'], ['add', 1, 'x'], ['append', 0, 1], ['slice', 0, '?', '?'], ['from_iter', ['a']], ['from_iter', ['', 'x']], ['from_iter', ['a', 'x']]], ['basic', 'pairs']),
]
ROPE_THOROUGH = [
    ('5 pieces two slices', [['from_iter', ['?\n', '', '??', '\n', '?']], ['slice', 0, '?', '?'], ['slice', 0, '?', '?']], ALLOBS),
    ('append chains', [['new'], ['add', 0, '?'], ['add', 0, '\n'], ['from_iter', ['?', '?\n?']], ['append', 0, 1], ['append', 1, 0], ['slice', 1, '?', '?']], ALLOBS),
    ('multi-byte 4 pieces', [['from_iter', ['\u00e9', '\u20ac?', '\U0001F600', '?\n']], ['slice', 0, '?', '?'], ['from', '\u00e9\u20aca\U0001F600b\n']], ALLOBS),
]
WI_QUICK = [('str ascii', 'a?c?', 'str'), ('str multi-byte', '\u00e9?\u20ac?\U0001F600', 'str'), ('str empty', '', 'str'),
            ('rope pieces multi-byte', ['\u00e9?', '\u20ac', '?\U0001F600'], 'rope'), ('rope with empty piece', ['a?', '', '?\n'], 'rope')]


def rope_jobs(tier, seed):
    jobs = [J('rope:' + t[0], 'jobs.rope:rope_job', dict(program=t[1], observe=t[2]), timeout=600) for t in ROPE_QUICK]
    if tier == 'thorough':
        jobs += [J('rope:' + t[0], 'jobs.rope:rope_job', dict(program=t[1], observe=t[2]), required=False, timeout=900) for t in ROPE_THOROUGH]
    return jobs


def wi_jobs(tier, seed):
    return [J('with_indices:' + t[0], 'jobs.rope:with_indices_job', dict(text=t[1], kind=t[2]), timeout=300) for t in WI_QUICK]



# ------------------------------------------------------------------------------------------------ C15: SourceMap JSON
def _S(x): return {'sym': x}
def _N(x): return {'opt': x}
JSON_MAPS_QUICK = [
    ('map: three optional fields symbolic, mixed contents', {'mappings': 'AAAA;;CAAC', 'sources': ['a.js', 'b'], 'sourcesContent': ['', 'x\n"q"'], 'names': ['n" \\', '\u2028\u2029'], 'file': _S('f.js'), 'sourceRoot': _S('r/'), 'debugId': _S('id-1')}),
    ('map: all contents empty (member omitted)', {'mappings': '', 'sources': ['a.js', 'b'], 'sourcesContent': ['', ''], 'names': [], 'file': _S(''), 'sourceRoot': None, 'debugId': _S('')}),
    ('map: no sources, no contents', {'mappings': 'A', 'sources': [], 'sourcesContent': [], 'names': ['\U0001F600', '\x01\x1f'], 'file': None, 'sourceRoot': _S(''), 'debugId': None}),
    ('map: last content non-empty only', {'mappings': 'AAAA', 'sources': ['', '', 'c'], 'sourcesContent': ['', '', 'z'], 'names': [''], 'file': _S('\t'), 'sourceRoot': _S('/'), 'debugId': _S('\\')}),
    ('map: first content non-empty only', {'mappings': 'AAAA', 'sources': ['a', 'b'], 'sourcesContent': ['z', ''], 'names': [], 'file': None, 'sourceRoot': None, 'debugId': _S('d')}),
    ('map: more contents than sources', {'mappings': 'AAAA', 'sources': ['a'], 'sourcesContent': ['', 'surplus'], 'names': ['n'], 'file': _S('f'), 'sourceRoot': None, 'debugId': None}),
    ('map: fewer contents than sources, all empty', {'mappings': 'AAAA', 'sources': ['a', 'b', 'c'], 'sourcesContent': [''], 'names': [], 'file': None, 'sourceRoot': _S('r'), 'debugId': _S('d')}),
]
JSON_MAPS_THOROUGH = [
    ('map: empty everything', {'mappings': '', 'sources': [], 'sourcesContent': [], 'names': [], 'file': _S(''), 'sourceRoot': _S(''), 'debugId': _S('')}),
    ('map: contents with blanks only', {'mappings': 'A', 'sources': ['a', 'b'], 'sourcesContent': [' ', ''], 'names': [], 'file': None, 'sourceRoot': None, 'debugId': None}),
    ('map: astral and controls everywhere', {'mappings': 'AAAA', 'sources': ['\U0001F600\x7f', '\x00'], 'sourcesContent': ['\x00', '\U0001F600'], 'names': ['\ud7ff', '\ufffd'], 'file': _S('\U0001F600'), 'sourceRoot': _S('\x01'), 'debugId': _S('\u2028')}),
]
JSON_DOCS_QUICK = [
    ('doc: mappings + sources with null entries + optional file + unknown member, any order', [('mappings', 'AA', True), ('sources', [_N('a'), _N('b')], '?'), ('file', _N('f'), '?'), ('extra', {'a': [1]}, '?')]),
    ('doc: all three arrays optional / null, any order', [('mappings', '', True), ('sources', _N(['s']), '?'), ('sourcesContent', _N([_N('c')]), '?'), ('names', _N([None, 'n']), '?')]),
    ('doc: optional strings null / absent + version member, any order', [('version', 3, '?'), ('mappings', 'A;B', True), ('sourceRoot', _N('r'), '?'), ('debugId', _N('d'), '?')]),
    ('doc: mappings itself optional / null (must be rejected), any order', [('mappings', _N('A'), '?'), ('names', ['n'], True), ('file', 'f', '?')]),
    ('doc: the same member twice', [('mappings', 'A', True), ('file', 'f', True), ('file', 'g', '?'), ('names', [], '?')]),
]
JSON_DOCS_THOROUGH = [
    ('doc: five members, any order', [('mappings', 'A', True), ('sources', [_N('a')], '?'), ('names', _N(['n']), '?'), ('file', _N('f'), '?'), ('sourceRoot', _N('r'), '?')]),
    ('doc: all seven members present, any order of the first five', [('mappings', 'A', True), ('sources', ['a'], True), ('sourcesContent', ['c'], True), ('names', ['n'], True), ('file', 'f', True)]),
]


_ANY = {'any': ['s', None, 7, True, ['x', None], [1], {'k': 'v'}, []]}
JSON_DOCS_TYPES = [
    ('doc: mappings, file and sources of ANY JSON type (string, null, number, bool, arrays, object), any order', [('mappings', _ANY, '?'), ('file', _ANY, '?'), ('sources', _ANY, '?')]),
    ('doc: names / sourcesContent / sourceRoot / debugId of any JSON type', [('mappings', 'A', True), ('names', _ANY, '?'), ('sourcesContent', _ANY, '?'), ('sourceRoot', _ANY, True), ('debugId', _ANY, '?')], False),
]


def json_c17_jobs(tier, seed):
    return [J('json %s' % t[0], 'jobs.jsonrt:document_job', dict(members=t[1], sym_order=(t[2] if len(t) > 2 else True)), timeout=900) for t in JSON_DOCS_TYPES]


def json_jobs(tier, seed):
    jobs = [J('tv_json', 'jobs.jsonrt:tv_json', dict(n=60 if tier == 'quick' else 300, seed=seed), timeout=300)]
    for flav in ('mir', 'mir_rel'):
        for name, spec in JSON_MAPS_QUICK + (JSON_MAPS_THOROUGH if tier == 'thorough' else []):
            jobs.append(J('json roundtrip %s [%s]' % (name, flav), 'jobs.jsonrt:roundtrip_job', dict(spec=spec, flavour=flav), timeout=300))
    for name, mem in JSON_DOCS_QUICK:
        jobs.append(J('json %s' % name, 'jobs.jsonrt:document_job', dict(members=mem), timeout=600))
    jobs += json_c17_jobs(tier, seed)
    if tier == 'thorough':
        for name, mem in JSON_DOCS_THOROUGH:
            jobs.append(J('json %s' % name, 'jobs.jsonrt:document_job', dict(members=mem), required=False, timeout=900))
    return jobs


PROPS = {
    'C15': dict(jobs=[json_jobs],
                bounds={'quick': 'the crate side of the JSON pipeline interpreted from MIR (SourceMap::to_json / to_writer / from_json / from_slice / from_reader, the derive-generated Serialize impl of SourceMap with its skip predicates and is_all_empty, the derive-generated Deserialize impl of RawSourceMap, TryFrom<RawSourceMap>); SourceMap values of the catalog JSON_MAPS_QUICK (<= 3 sources / contents / names, concrete strings with quotes, backslashes, control characters, U+2028/9, astral characters) whose three optional fields are present or absent SYMBOLICALLY (Option discriminants decided by the solver), debug and release MIR; documents of JSON_DOCS_QUICK: <= 4 members, each optional member present or absent, each nullable entry null or a string, and the ORDER of the members symbolic (every permutation), read through all three entry points',
                        'thorough': 'as quick plus larger maps and documents of 5 members in every order'},
                outside='the JSON TEXT layer of simd-json (escaping on output, lexing / UTF-8 validation / number parsing on input, SIMD kernels) is a CONTRACT (msx/jsonmodel.py: a faithful RFC 8259 binding of the serde data model) - validated on every run against the native crate with the real simd-json on pseudo-random values and documents (tv_json) and by native replay of every counterexample, but not decided; string contents are concrete; byte sequences that are not JSON (C17 sentence on the parsers) are not decided',
                assumptions=['simd_json::serde::{to_string,to_writer,from_slice,from_reader} = RFC 8259 binding of the serde data model (member order = emission order; objects -> visit_map with duplicates kept, arrays -> visit_seq)', 'serde impls of Deserialize for String / Option<T> / Vec<T> / IgnoredAny and __private::de::missing_field have their documented meaning', 'the reader passed to from_reader is a byte slice']),
    'C12': dict(jobs=[codec_c12],
                bounds={'quick': 'encode_vlq: all u32 a,b with |a-b| < 2^30; decoder vs format: skeletons of <= 3 segments, <= 3 digits per field, every digit symbolic; '
                                 'round trips: <= 2 symbolic mappings, field values < 2^5 (2 mappings: < 2^3), line gaps <= 1; lines-only encoder: <= 2 mappings',
                        'thorough': 'as quick plus <= 3 mappings, field values < 2^10 (single mapping), each field alone up to 2^30, skeletons of <= 5 segments'},
                outside='sequences longer than 3 mappings; simultaneous large values in several fields (argued by field independence, not discharged); deltas >= 2^30',
                assumptions=['input mapping sequences are strictly sorted by generated position with lines >= 1 and original lines >= 1',
                             'decoder-vs-format jobs assume non-negative running values below 2^31 (as the property states)']),
    'C01': dict(jobs=[tree_jobs(['C01']), replace_jobs(['C01']), sms_jobs(['C01']), combined_jobs(['C01']), cached_jobs(['C01']), wild_small_jobs(['C01']), mb_jobs(['C01'], ['source', 'c1f0', 'c0f0'])], bounds=RTREE_BOUNDS, outside=TREE_OUTSIDE + '; CachedSource / SourceMapSource trees until their stages are registered', assumptions=TREE_ASSUME),
    'C02': dict(jobs=[tree_jobs(['C02']), replace_jobs(['C02']), sms_jobs(['C02']), combined_jobs(['C02']), cached_jobs(['C02'])], bounds=RTREE_BOUNDS, outside=TREE_OUTSIDE + '; CachedSource / SourceMapSource trees until their stages are registered', assumptions=TREE_ASSUME),
    'C03': dict(jobs=[tree_jobs(['C03']), replace_jobs(['C03']), sms_jobs(['C03']), combined_jobs(['C03']), cached_jobs(['C03'])], bounds=RTREE_BOUNDS, outside=TREE_OUTSIDE, assumptions=TREE_ASSUME),
    'C04': dict(jobs=[tree_jobs(['C04']), replace_jobs(['C04']), cached_jobs(['C04'])], bounds=RTREE_BOUNDS, outside=TREE_OUTSIDE, assumptions=TREE_ASSUME),
    'C07': dict(jobs=[views_jobs, mb_jobs(['C07'], VIEWS)], bounds={'quick': 'all trees of TREES_QUICK, REPLACE_QUICK (symbolic replacement ranges) and four SourceMapSource shapes: source(), rope(), buffer(), size(), to_writer() into a recording writer, and to_writer() into a writer that fails after a SYMBOLIC number k <= 64 of bytes; binary (invalid UTF-8) leaves alone, in a ConcatSource, under a CachedSource and under a ReplaceSource (with and without replacements); every ReplaceSource tree also with rope() resp. size() as the FIRST call after the last mutation (no earlier observer has sorted the replacements)', 'thorough': 'as quick plus the views of TREES_THOROUGH, REPLACE_THOROUGH, the remaining SourceMapSource shapes, four combined-map shapes and the CachedSource trees of C10_QUICK'},
                outside='multi-byte valid UTF-8 texts in the tree jobs (the lossy decoding of invalid buffers is covered by concrete binary leaves); the real Rope representation (C16)', assumptions=TREE_ASSUME + ['std::io::Write is modelled by a recording writer whose write_all accepts a prefix and then fails']),
    'C08': dict(jobs=[sms_jobs(['C08'])], bounds={'quick': 'catalog lib/props.py:SMS_QUICK: SourceMapSource leaves over concrete ASCII texts (1-3 lines, empty lines, trailing line break, empty text) whose maps are mapping-string templates with up to 5 SYMBOLIC single-digit VLQ fields (values < 6; assumed sorted, inside the text, indices in range), 1-2 sources, 0-2 names, with/without sourcesContent, sourceRoot none / empty / r / r/; streamed directly in all four (columns x final) modes, through map(), as first and second child of a ConcatSource and under a ReplaceSource; two segments at one original position that differ only in having a name; a sourceRoot ending in several slashes; a child whose first line is unmapped and whose first mapping sits at the column where the previous sibling ended', 'thorough': 'as quick plus SMS_THOROUGH: 3-line texts with 6 symbolic fields, columns < 16 on an 8-character line, symbolic name and source indices, two empty lines, under nested boxed ConcatSource, between raw children, under a ReplaceSource with two symbolic replacements'},
                outside='multi-digit VLQ fields in the given map (the decoder itself is C12), texts longer than 3 lines, the user-defined-source entry stream_chunks_default (same function underneath), non-ASCII text', assumptions=TREE_ASSUME),
    'C05': dict(jobs=[replace_jobs(['C05'])], bounds=RTREE_BOUNDS, outside='texts longer than the catalog, more than 4 replacements, non-ASCII texts (engine K covers the real String/Rope code on multi-byte shapes when registered); rope()/buffer()/size() views are C07', assumptions=TREE_ASSUME),
    'C06': dict(jobs=[tree_jobs(['C06']), replace_jobs(['C06']), sms_jobs(['C06']), cached_jobs(['C06'])], bounds=RTREE_BOUNDS, outside=TREE_OUTSIDE + '; SourceMapSource children with several sources/names until stage S2b is registered', assumptions=TREE_ASSUME),
    'C09': dict(jobs=[combined_jobs(['C09'])], bounds={'quick': 'catalog COMBINED_QUICK: SourceMapSource with an inner source map over concrete ASCII texts (<= 2 lines); outer and inner maps are mapping-string templates with up to 3 SYMBOLIC single-digit fields (outer original column into the inner source, inner generated/original columns, lines), 1-3 outer sources (the inner source name in first or second place), 1-2 inner sources with/without contents, names on either side, original_source given or taken from the outer sourcesContent, remove_original_source both ways; all four streams and map(); also as a child of a ConcatSource; consecutive generated lines that resolve to different files on consecutive original lines; the composed attribution is also read through map() for both column settings', 'thorough': 'as quick plus COMBINED_THOROUGH: 2-line inner source with symbolic outer line and column, symbolic inner source index over 2 inner sources, removal with a pass-through source, names on both sides, sourceRoot, a combined map under a ReplaceSource'},
                outside='multi-digit VLQ fields, more than 2 lines, non-ASCII, inner maps that themselves came from a combination (just another map value here)', assumptions=TREE_ASSUME),
    'C10': dict(jobs=[c10_jobs], bounds={'quick': 'catalog C10_QUICK: CachedSource over Original / Raw / ConcatSource / ReplaceSource / SourceMapSource inners (<= 3 symbolic bytes or symbolic replacement range / map digits), CachedSource inside a ConcatSource / under a ReplaceSource / nested; CALL HISTORY of 2-3 slots whose operation the solver picks from {map(columns), map(lines), stream(columns), stream(lines), source, hash, clone-and-continue-on-the-clone}, then source, size, all four streams and both maps are compared with the wrapped source alone (text, end info, per-position attribution; file and line for columns=false); two trees with rope.rs itself interpreted (the replay path measures Rope::lines / Rope::len), a cache filled by streaming over sources announced without content, two nested symbolic replacements replayed through rope()', 'thorough': 'as quick plus C10_THOROUGH: histories of up to 4 solver-picked calls, CachedSource over two symbolic replacements / symbolic map digits / a combined map / nested boxed ConcatSource / another CachedSource, two CachedSources in one ConcatSource, an empty ConcatSource, a RawBufferSource'},
                outside='histories longer than 3 calls; texts beyond the catalog; attribution equality is per position, not chunk-for-chunk (the replay path legitimately coarsens chunks)', assumptions=TREE_ASSUME + ['DashMap is a finite map from MapOptions to heap cells (contracts.py); FxHasher::finish is an uninterpreted function of the written stream']),
    'C11': dict(jobs=[tree_jobs(['C11']), replace_jobs(['C11']), sms_jobs(['C11']), combined_jobs(['C11']), cached_jobs(['C11']), codec_c11], bounds=RTREE_BOUNDS, outside=TREE_OUTSIDE, assumptions=TREE_ASSUME),
    'C13': dict(jobs=[c13_jobs], bounds={'quick': 'catalog lib/props.py:C13_QUICK: nested boxed ConcatSource groupings (depth <= 3) vs the flat concatenation; single-child / empty-children ConcatSource, boxing and a ReplaceSource without replacements vs the wrapped source; <= 4 symbolic bytes; text, per-position attribution through map() (both column settings) and through the chunk stream, end info; a CachedSource with a warm cache inside a ConcatSource vs the same tree without the cache, with rope.rs itself interpreted', 'thorough': 'as quick plus C13_THOROUGH: 5 symbolic bytes, depth 4, SourceMapSource / ReplaceSource / CachedSource children inside nested groups, several empty children in a row, doubly boxed ReplaceSource, alphabet with { and tab'},
                outside=TREE_OUTSIDE + '; typed nesting flattened by ConcatSource::new/add and CachedSource wrappers until their stages are registered', assumptions=TREE_ASSUME),
    'C14': dict(jobs=[eq_jobs, neq_jobs, stable_jobs], bounds={'quick': 'catalogs EQ_QUICK (13 shapes of every source type, symbolic bytes, built twice from the same ingredients; typed and through dyn Source; observer history of 1-2 solver-picked calls from {source, size, map, stream, hash, buffer, rope} applied to ONE of the two) and NEQ_QUICK (one-edit pairs): ==, == in the other direction, recorded Hash streams, clone == original with equal stream and equal source(); for equal values every observer (source, size, map, chunk stream incl. announced contents) must answer identically on the value with a history and on the untouched one', 'thorough': 'as quick plus one more solver-picked observer call in every history'},
                outside='histories longer than 2; a BoxSource inside a BoxSource is identified with its content (the type-id contract looks through Arc layers); hash collisions of the final 64-bit hasher', assumptions=TREE_ASSUME + ['Hash is observed through a recording Hasher (write calls of std impls are contracts: str = bytes + terminator as one record)', 'TypeId contract: equal iff same concrete type']),
    'C20': dict(jobs=[neq_jobs, eq_jobs], bounds={'quick': 'catalog NEQ_QUICK: 37 one-edit pairs (leaf text / name / type at equal text, every field of a replacement incl. order of equal keys, presence of a replacement, every part of an attached map, inner map, remove flag, original source, ConcatSource child / order / prefix / cut, wrapper) - the recorded hasher streams must differ and == must be false, typed and through dyn Source, also after one solver-picked observer call; reproducibility: EQ_QUICK (equal ingredients and any observer history give the identical stream)', 'thorough': 'as quick plus two solver-picked observer calls before the comparison and the pairs compared in the other direction'},
                outside='collisions of the final 64-bit hasher (excluded by the property); edits at depth > 2; the SourceMapSource name (deliberately not hashed)', assumptions=TREE_ASSUME + ['Hash is observed through a recording Hasher; nothing but the recorded write calls can influence a Hasher, so equal streams mean equal hashes in every process']),
    'C16': dict(jobs=[rope_jobs], bounds={'quick': 'rope.rs itself interpreted from MIR (no Rope contract): construction programs of the catalog ROPE_QUICK (<= 7 steps over new/from/from_iter/add/append/clone/get_byte_slice, <= 5 pieces incl. empty pieces, 1-4 byte UTF-8 characters, pieces cut inside lines; piece CONTENT symbolic over {a,b}, line structure concrete; slice bounds SYMBOLIC in [0, len+1]); every observer on every register, all pairs for ==, starts_with, == &str; get_byte at every index', 'thorough': 'as quick plus ROPE_THOROUGH'},
                outside='programs longer than the catalog; symbolic line structure; Rc/Vec allocation behaviour (Rc::make_mut is modelled as copy-on-write), Hash of ropes', assumptions=['Vec / Rc / VecDeque / binary_search_by are contracts (msx/contracts.py); std::binary_search_by is modelled by the algorithm of Rust 1.82+ (returns the last of several equal keys) - rope.rs relies on that unspecified behaviour']),
    'C18': dict(jobs=[c18_jobs], bounds={'quick': 'catalog C18_QUICK: TWO logical threads, <= 2 operations each over map / stream_chunks / source / size / hash / clone on a shared CachedSource (both fill paths and the replay path, both column settings, a clone sharing the caches), ReplaceSource (lazy sort under Mutex + AtomicBool, clone), RawSource / RawBufferSource (OnceLock) and a ConcatSource containing them; EVERY interleaving at the library\'s shared-state accesses (AtomicBool load/store, Mutex::lock, DashMap get/insert/entry, VacantEntry::insert, OnceLock) and at operation boundaries up to 5-8 context switches; locks block, guards release where the MIR drops them', 'thorough': 'as quick with 3 more context switches'},
                outside='three threads; schedules with more switches; weak memory (all accesses are SeqCst in the crate; the model is sequentially consistent); switch points inside user-defined child sources; only the cache-entry-replacement class of counterexamples has a native forcing harness (real threads + a gated inner source), other interleavings would be reported as inconclusive', assumptions=['DashMap is modelled as ONE shard with a reader/writer lock held by the guards the real API returns; std Mutex / OnceLock block']),
    'C19': dict(jobs=[rope_jobs, wi_jobs, codec_c11, c18_jobs], bounds={'quick': 'unsafe sites reached through checked contracts: slice::get_unchecked / str::get_unchecked / Rope::byte_slice_unchecked (rope jobs of C16 and WithIndices::substring with SYMBOLIC char indices incl. usize::MAX over multi-byte &str and Rope lines), String::from_utf8_unchecked in both encoders (ASCII obligation on every drain)', 'thorough': 'as quick'},
                outside='the transmute in replace_source.rs: the replacement vector is only borrowed while &self is borrowed and mutation needs &mut self (a type-system argument, not a query); misaligned access / allocator-level UB (no raw pointer arithmetic in the crate); sanitizer runs are not part of this technique', assumptions=['an unchecked operation is modelled as its checked form whose failure is reported']),
    'C17': dict(jobs=[json_c17_jobs, codec_c17, sms_jobs(['C17'], True), combined_jobs(['C17']), tree_jobs(['C17']), replace_jobs(['C17']), cached_jobs(['C17']), mb_jobs(['C17']), wild_small_jobs(['C17'])],
                bounds={'quick': 'decoder: inductive step over ONE byte (all 256 values) from every decoder state satisfying the stated invariant - covers strings of every length < 2^31; '
                                 'plus all byte strings of length <= 3 and continuation runs of 12/13/14/20 digits in each of the 5 field slots, debug and release MIR',
                        'thorough': 'as quick plus all byte strings of length <= 5, continuation runs 1..40'},
                outside='SourceMap::from_json / from_slice / from_reader on byte sequences that are not JSON (simd-json lexer: CPU-dispatched SIMD, not encodable - the crate side, i.e. every well-formed JSON object whose members have ANY JSON type, is decided by the json document jobs over the simd-json contract); streaming of source trees with wild maps is decided by the stream jobs (stage S2/S3) when registered',
                assumptions=['decoder invariant: current_value_pos = 5k with k <= bytes consumed; current_data_pos <= bytes consumed; generated_line <= bytes consumed + 1; fewer than 2^31 bytes']),
}


def jobs_for(pid, tier, seed):
    out = []
    seen = set()
    for f in PROPS[pid]['jobs']:
        for j in f(tier, seed):
            if j['id'] in seen: continue
            seen.add(j['id']); out.append(j)
    return out

"""Known findings (committed file /verif/known_findings.json, never written at run time).
An 'open' entry suppresses exactly the counterexamples its matcher recognises (they are printed as KNOWN-FINDING);
a 'fixed' entry suppresses nothing."""
import json, os

VERIF = os.path.dirname(os.path.dirname(os.path.abspath(__file__)))


def load():
    p = os.path.join(VERIF, 'known_findings.json')
    if not os.path.exists(p): return []
    return json.load(open(p)).get('findings', [])


def match(findings, pid, cex, obs):
    for k in findings:
        if k.get('status') != 'open' or pid not in k.get('properties', []): continue
        f = MATCHERS.get(k['id'])
        if f is not None and f(cex, obs): return k
    return None


def _unbox(t):
    while t.get('kind') == 'boxed': t = t['inner']
    return t


def m_sms_map_some(cex, obs=None, msg=None):
    """a bare SourceMapSource (no inner map) whose given map has no mapped segment: map() returns the stored map as is"""
    from .confirm import v3_decode
    t = _unbox(cex.get('tree') or {})
    if t.get('kind') != 'sms' or t.get('inner_map') is not None: return False
    try: segs = v3_decode(t['map']['mappings'])
    except Exception: return False
    if any(len(s) >= 5 for s in segs): return False
    text = msg if msg is not None else cex.get('oracle', '')
    return 'map() is Some although the chunk stream has no mapped chunk' in text


MATCHERS = {'sms-map-some-without-mapped-segment': m_sms_map_some}


def split_known(findings, pid_list, tree_obs, violations):
    """violations [(prop, msg)] of one observed tree -> (unknown, known ids). Only 'open' findings suppress."""
    unknown, hits = [], []
    for (p, msg) in violations:
        hit = None
        for k in findings:
            if k.get('status') != 'open' or p not in k.get('properties', []): continue
            f = MATCHERS.get(k['id'])
            if f is not None and f({'tree': tree_obs.get('tree')}, None, msg): hit = k['id']; break
        if hit: hits.append(hit)
        else: unknown.append((p, msg))
    return unknown, hits

"""Known findings (committed file /verif/known_findings.json, never written at run time).
An 'open' entry suppresses exactly the counterexamples its matcher recognises (they are printed as KNOWN-FINDING);
a 'fixed' entry suppresses nothing."""
import json, os

VERIF = os.path.dirname(os.path.dirname(os.path.abspath(__file__)))


def load():
    p = os.path.join(VERIF, 'known_findings.json')
    if not os.path.exists(p): return []
    return json.load(open(p)).get('findings', [])


def match(findings, pid, cex, obs):
    for k in findings:
        if k.get('status') != 'open' or pid not in k.get('properties', []): continue
        f = MATCHERS.get(k['id'])
        if f is not None and f(cex, obs): return k
    return None


MATCHERS = {}

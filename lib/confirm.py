"""Does a native run (observations from the replay binary, dev and release builds of the real crate) reproduce the
violation the solver reported? Oracles are re-evaluated here on concrete values, independently of the engine."""


def attr(segs, line, col):
    best = None
    for s in segs:
        if s[0] == line and s[1] <= col and (best is None or s[1] >= best[1]): best = s
    if best is None or len(best) < 5: return None
    return tuple(best[2:])


def attribution_equal(a, b):
    pts = {(s[0], s[1]) for s in a} | {(s[0], s[1]) for s in b}
    return all(attr(a, l, c) == attr(b, l, c) for (l, c) in pts)


def strictly_sorted(segs):
    return all((x[0], x[1]) < (y[0], y[1]) for x, y in zip(segs, segs[1:])) and all(s[0] >= 1 for s in segs)


def v3_decode(s):
    """independent reference decoder of the source-map v3 mappings grammar (1-based original line as the crate reports it)"""
    A = 'ABCDEFGHIJKLMNOPQRSTUVWXYZabcdefghijklmnopqrstuvwxyz0123456789+/'
    out, line = [], 1
    run = [0, 0, 0, 0, 0]
    for ln in s.split(';'):
        run[0] = 0
        for seg in ln.split(','):
            if not seg: continue
            vals, cur, shift = [], 0, 0
            for ch in seg:
                d = A.index(ch); cur |= (d & 31) << shift
                if d & 32: shift += 5
                else:
                    vals.append(-(cur >> 1) if cur & 1 else cur >> 1); cur, shift = 0, 0
            for i, v in enumerate(vals[:5]): run[i] += v
            if len(vals) == 1: out.append([line, run[0]])
            elif len(vals) == 4: out.append([line, run[0], run[1], run[2] + 1, run[3]])
            elif len(vals) == 5: out.append([line, run[0], run[1], run[2] + 1, run[3], run[4]])
        line += 1
    return out


def confirm(cex, obs):
    fam = cex.get('family')
    f = CONFIRM.get(fam)
    if f is None: return False, 'no native oracle for family %r' % fam
    try:
        return f(cex, obs)
    except Exception as e:
        return False, 'native oracle error: %r' % (e,)


def c_decode(cex, obs):
    d, r = obs.get('debug', {}), obs.get('release', {})
    if d.get('panicked') or r.get('panicked'):
        return True, 'native panic: dev=%s release=%s' % (d.get('message') if d.get('panicked') else 'no', r.get('message') if r.get('panicked') else 'no')
    if d.get('signal') or r.get('signal'): return True, 'native crash (signal)'
    if 'expected' in cex or 'oracle' in cex and 'v3 semantics' in cex['oracle']:
        s = cex.get('mappings') or d.get('string')
        try: exp = v3_decode(s)
        except Exception: return False, 'string outside the reference grammar'
        for prof, o in obs.items():
            if o.get('decoded') != exp: return True, '%s build decodes %r to %r, the format defines %r' % (prof, s, o.get('decoded'), exp)
    return False, 'native runs return normally and agree with the reference'


def c_roundtrip(cex, obs):
    ms = cex['mappings']
    for prof, o in obs.items():
        if o.get('panicked'): return True, '%s build panics: %s' % (prof, o.get('message'))
        if not attribution_equal(ms, o['decoded']): return True, '%s: decode(encode(M)) attributes differently: %r -> %r -> %r' % (prof, ms, o['encoded'], o['decoded'])
        if o['reencoded'] != o['encoded']: return True, '%s: encode(decode(s)) = %r != s = %r' % (prof, o['reencoded'], o['encoded'])
        if not strictly_sorted(o['decoded']): return True, '%s: decoded segments not strictly increasing: %r' % (prof, o['decoded'])
        if any(ch not in 'ABCDEFGHIJKLMNOPQRSTUVWXYZabcdefghijklmnopqrstuvwxyz0123456789+/,;' for ch in o['encoded']): return True, 'alphabet'
        try:
            if v3_decode(o['encoded']) != o['decoded']: return True, '%s: crate decoder and reference decoder disagree on %r' % (prof, o['encoded'])
        except Exception as e:
            return True, 'encoder output outside the reference grammar: %r' % o['encoded']
    return False, 'native round trip is attribution-preserving and stable'


def c_lines_only(cex, obs):
    ms = cex['mappings']
    exp = []
    for s in ms:
        if len(s) >= 5 and not any(e[0] == s[0] for e in exp): exp.append([s[0], 0, s[2], s[3], 0])
    for prof, o in obs.items():
        if o.get('panicked'): return True, '%s build panics: %s' % (prof, o.get('message'))
        if o.get('decoded') != exp: return True, '%s: lines-only output %r decodes to %r, expected %r' % (prof, o.get('encoded'), o.get('decoded'), exp)
    return False, 'native lines-only encoding is as expected'


def c_vlq(cex, obs):
    a, b = cex['a'], cex['b']
    lo, hi = min(a, b), max(a, b)
    for prof, o in obs.items():
        if o.get('panicked'): return True, '%s build panics: %s' % (prof, o.get('message'))
        try: dec = v3_decode(o['encoded'])
        except Exception: return True, 'output outside the grammar: %r' % o['encoded']
        if dec != [[1, lo, 0, 1, 0], [1, hi, 0, 2, 0]]: return True, '%s: %r decodes (reference) to %r' % (prof, o['encoded'], dec)
    return False, 'native encoding of the delta is the reference spelling'


def c_tree(cex, obs):
    from . import oracles
    props = cex.get('props')
    msgs = []
    for prof, o in obs.items():
        if o.get('panicked'): return True, '%s build panics while building / observing the tree: %s' % (prof, o.get('message'))
        if o.get('panics'):
            return True, '%s build panics in %s' % (prof, json_short(o['panics']))
        if 'source' not in o: o['source'] = oracles.provenance(o['tree'])[0]
        vs = oracles.judge(o, props)
        if vs: return True, '%s build: %s' % (prof, '; '.join('%s: %s' % v for v in vs[:2]))
    return False, 'native observations satisfy the oracles'


def json_short(x):
    import json
    return json.dumps(x)[:300]


def rope_model(program):
    """flat strings of the registers after the program (reference semantics); None when a slice is invalid"""
    regs = []
    for st in program:
        op = st[0]
        if op == 'new': regs.append('')
        elif op == 'from': regs.append(st[1])
        elif op == 'from_iter': regs.append(''.join(st[1]))
        elif op == 'clone': regs.append(regs[st[1]])
        elif op == 'add': regs[st[1]] += st[2]
        elif op == 'append': regs[st[1]] += regs[st[2]]
        elif op == 'line':
            regs.append(flat_lines(regs[st[1]], True)[st[2]])
        elif op == 'slice':
            b = regs[st[1]].encode('utf-8'); a_, b_ = st[2], st[3]
            form = st[4] if len(st) > 4 else 'range'
            if form == 'to': a_ = 0
            elif form == 'to_incl': a_, b_ = 0, b_ + 1
            elif form == 'from': b_ = len(b)
            elif form == 'incl': b_ = b_ + 1
            def bd(k): return k == 0 or k == len(b) or (k < len(b) and (b[k] & 0xC0) != 0x80)
            if not (a_ <= b_ <= len(b) and bd(a_) and bd(b_)): return regs, ('none', len(regs))
            regs.append(b[a_:b_].decode('utf-8'))
    return regs, None


def flat_lines(t, trailing):
    out, cur = [], ''
    for ch in t:
        cur += ch
        if ch == '\n': out.append(cur); cur = ''
    if cur: out.append(cur)
    elif trailing and (t == '' or t.endswith('\n')): out.append('')
    return out


def c_rope(cex, obs):
    regs, stop = rope_model(cex['program'])
    for prof, o in obs.items():
        if o.get('signal') or o.get('error'): return True, '%s build: the process crashed (signal %s) - an unsafe precondition check aborted or memory was corrupted' % (prof, o.get('signal'))
        if o.get('aborted'): return True, '%s build: a construction step panics: %r' % (prof, o.get('steps'))
        nslices = [s for s in o.get('steps', []) if s in ('some', 'none')]
        want = 'none' if stop else None
        if stop and (not nslices or nslices[-1] != 'none'): return True, '%s build: get_byte_slice returned Some for an invalid range' % prof
        if not stop and 'none' in nslices: return True, '%s build: get_byte_slice returned None for a valid range' % prof
        each = o['regs']['each']
        for i, (r, e) in enumerate(zip(regs, each)):
            b = r.encode('utf-8')
            exp = {'len': len(b), 'is_empty': len(b) == 0, 'to_string': r, 'to_bytes': r, 'ends_nl': r.endswith('\n'), 'ends_a': r.endswith('a'),
                   'lines': flat_lines(r, True), 'lines_false': flat_lines(r, False)}
            ci, k = [], 0
            for ch in r:
                ci.append([k, ch]); k += len(ch.encode('utf-8'))
            exp['char_indices'] = ci
            for key, val in exp.items():
                g = e.get(key)
                if g is None: continue
                if 'panic' in g: return True, '%s build: r%d.%s panics: %s' % (prof, i, key, g['panic'])
                if g['ok'] != val: return True, '%s build: r%d.%s = %r, the flat string gives %r' % (prof, i, key, g['ok'], val)
            for k2, g in enumerate(e['get_byte']):
                if 'panic' in g: return True, '%s build: r%d.get_byte(%d) panics: %s' % (prof, i, k2, g['panic'])
                if g['ok'] != (b[k2] if k2 < len(b) else None): return True, '%s build: r%d.get_byte(%d) = %r' % (prof, i, k2, g['ok'])
        for p in o['regs']['pairs']:
            a, b2 = regs[p['a']], regs[p['b']]
            for key, val in (('eq', a == b2), ('starts_with', a.startswith(b2)), ('eq_str', a == b2)):
                g = p[key]
                if 'panic' in g: return True, '%s build: r%d %s r%d panics: %s' % (prof, p['a'], key, p['b'], g['panic'])
                if g['ok'] != val: return True, '%s build: r%d.%s(r%d) = %r, the flat strings give %r' % (prof, p['a'], key, p['b'], g['ok'], val)
    return False, 'native rope observers agree with the flat strings'


def has_kind_t(t, kind):
    if not isinstance(t, dict): return False
    if t.get('kind') == kind: return True
    return any(has_kind_t(c, kind) for c in t.get('children', [])) or has_kind_t(t.get('inner'), kind)


def c_threads(cex, obs):
    orc = cex.get('oracle', '')
    t = cex.get('tree', {})
    if 'was replaced' in orc:
        if not has_kind_t(t, 'cached'): return False, 'native harness covers CachedSource only'
        for prof, o in obs.items():
            if o.get('replaced'):
                w = o['map_first'] if o['map_first'].get('replaced') else o['stream_first']
                return True, '%s build, real threads (first thread inside inner.%s()): the cached SourceMap moved from %#x to %#x while a reference into it was held - the entry was replaced' % (prof, w['first_op'], w['borrowed_name_ptr_before'], w['borrowed_name_ptr_after'])
        return False, 'native threads: the cached entry was not replaced'
    if 'answers differently' in orc and has_kind_t(t, 'replace'):
        for prof, o in obs.items():
            st = o.get('stress')
            if st and st.get('mismatches', 0) > 0: return True, '%s build, real threads (stress, %d rounds): %d racing source() calls returned a text of the wrong length' % (prof, st['rounds'], st['mismatches'])
        return False, 'native stress run of the lazy sort: all answers correct'
    return False, 'no native forcing harness for this interleaving class'


def c_eqhash(cex, obs):
    rel = cex.get('relation', 'equal')
    for prof, o in obs.items():
        if o.get('panicked'): return True, '%s build panics: %s' % (prof, o.get('message'))
        if rel == 'stable':
            if o['ab0'] != o['ab1']: return True, '%s build: a == b was %s before and is %s after the observer history (%r on a, %r on b)' % (prof, o['ab0'], o['ab1'], cex.get('history'), cex.get('history_b'))
            if o['ab1'] != o['ba1']: return True, '%s build: a == b and b == a disagree after the history' % prof
            if o['hash_a0'] != o['hash_a1'] or o['hash_b0'] != o['hash_b1']: return True, '%s build: a hash changed because observers were called' % prof
            if o['ab1'] and o['hash_a1'] != o['hash_b1']: return True, '%s build: equal values with different hashes' % prof
            continue
        if rel == 'equal':
            if not o['ab']: return True, '%s build: a == b is false for values built from the same ingredients (history %r)' % (prof, cex.get('history'))
            if not o['ba']: return True, '%s build: b == a is false' % prof
            if o['hash_a'] != o['hash_b']: return True, '%s build: equal values hash differently (%s vs %s) after history %r' % (prof, o['hash_a'], o['hash_b'], cex.get('history'))
            if not o['clone_eq']: return True, '%s build: a clone is not equal to its original' % prof
            if o['hash_clone'] != o['hash_a']: return True, '%s build: a clone hashes differently from its original' % prof
            if o['source_clone'] != o['source_b']: return True, '%s build: clone(a).source() %r differs from b.source() %r' % (prof, o['source_clone'], o['source_b'])
            if 'obs_a' in o:
                from lib import oracles
                for k in ('source', 'size', 'map1', 'c1f0'):
                    if not oracles.same_obs(k, o['obs_a'], o['obs_b']):
                        return True, '%s build: a == b, yet %s answers differently on a (after history %r) and on b' % (prof, k, cex.get('history'))
        else:
            if o['ab'] or o['ba']: return True, '%s build: the two values compare equal although they are one edit apart' % prof
            if o['hash_a'] == o['hash_b']: return True, '%s build: the two values have the same hash %s although they are one edit apart' % (prof, o['hash_a'])
    return False, 'native equality / hashes are as required'


def c_with_indices(cex, obs):
    chars = list(cex['text'])
    i, j = cex['i'], cex['j']
    exp = '' if j <= i else ''.join(chars[min(i, len(chars)):min(j, len(chars))])
    for prof, o in obs.items():
        if o.get('signal') or o.get('error'): return True, '%s build: the process crashed (signal %s): an unsafe precondition was violated' % (prof, o.get('signal'))
        if o.get('panicked'): return True, '%s build panics: %s' % (prof, o.get('message'))
        if o.get('substring') != exp: return True, '%s build: substring(%d, %d) of %r is %r, the char-wise substring is %r' % (prof, i, j, cex['text'], o.get('substring'), exp)
    return False, 'native substring is the char-wise substring'


def c_json(cex, obs):
    from . import json_oracle as JO
    for prof, o in obs.items():
        vs = JO.judge_native(cex, o)
        if vs: return True, '%s build: %s' % (prof, '; '.join(vs[:2]))
    return False, 'native observations satisfy the JSON oracles'


CONFIRM = {'json': c_json, 'jsondoc': c_json, 'with_indices': c_with_indices, 'eqhash': c_eqhash, 'threads': c_threads, 'rope': c_rope, 'tree': c_tree, 'decode': c_decode, 'decode_bytes': c_decode, 'decoder_step': c_decode, 'roundtrip': c_roundtrip, 'lines_only': c_lines_only, 'vlq': c_vlq}

"""C14 / C20: equality, hashing and cloning. Two values are built in one symbolic state (from the same symbolic
ingredients, or one edit apart); a history of observers runs on the first; then ==, both directions, and the Hash streams
(written into a recording Hasher: 'different hash up to collisions' = 'different recorded stream') are compared."""
import z3
from .common import *
from . import streams
from msx.textmodel import HasherV


def log_eq(a, b):
    """Boolean (python or z3): two recorded hasher streams are equal"""
    if len(a) != len(b): return False
    conds = []
    for x, y in zip(a, b):
        if x[0] != y[0]: return False
        vx, vy = x[1], y[1]
        if isinstance(vx, tuple):
            if len(vx) != len(vy): return False
            conds += [byte_eq(p, q) for p, q in zip(vx, vy)]
        elif isinstance(vx, (int, bool)) and isinstance(vy, (int, bool)):
            if vx != vy: return False
        else:
            zx = vx if not isinstance(vx, (int, bool)) else (z3.BoolVal(vx) if isinstance(vx, bool) else z3.BitVecVal(vx, vy.size()))
            zy = vy if not isinstance(vy, (int, bool)) else (z3.BoolVal(vy) if isinstance(vy, bool) else z3.BitVecVal(vy, vx.size()))
            conds.append(zx == zy)
    return b_and(*conds)


def eqhash_job(jid, tree_a, tree_b=None, relation='equal', history=(), history_slots=0, dyn=False, flavour='mir',
               history_ops=('source', 'size', 'map1', 'c1f0', 'hash', 'buffer', 'rope')):
    """relation 'equal': b is built from the same ingredients as a (tree_b None = same spec): a == b, b == a, equal hash streams,
    clone(a) == a with equal stream - after any observer history on a.  relation 'differ': a and b are one edit apart:
    a != b and the streams differ.  dyn: compare through `dyn Source` (type-id + downcast)."""
    idx = api.load(flavour); m = api.machine(idx, loop_bound=64); J = Job(jid, m)
    st = State()
    sym = streams.Sym(st, streams.ALPHA['q'])
    ra, sa = streams.build(idx, sym, tree_a, m, False)
    if tree_b is None: rb, sb = streams.build(idx, sym, streams.alt_of(sa, 'same'), m, False)
    else: rb, sb = streams.build(idx, sym, tree_b, m, False)
    st.extra['a'] = ra if isinstance(ra, Ref) else Ref(Cell(ra))
    st.extra['b'] = rb if isinstance(rb, Ref) else Ref(Cell(rb))
    ta, tb = streams.type_name(streams.unbox(tree_a)), streams.type_name(streams.unbox(tree_b if tree_b is not None else tree_a))
    mf = lambda mdl: {'family': 'eqhash', 'a': streams.concretize_spec(mdl, sa), 'b': streams.concretize_spec(mdl, sb), 'relation': relation, 'dyn': dyn,
                      'history': list(history) + [history_ops[mval(mdl, z3.BitVec('hist%d' % i, 8)) % len(history_ops)] for i in range(history_slots)]}
    # ---- history on a
    hs = [(st, [])]
    for _ in range(history_slots):
        nx = []
        for s_, chosen in hs:
            sel = z3.BitVec('hist%d' % len(chosen), 8)
            for k_, op in enumerate(history_ops):
                if m.feasible(s_, sel == k_):
                    s2_ = s_.clone(); s2_.pc.append(sel == k_); s2_.model = None
                    nx.append((s2_, chosen + [op]))
        hs = nx
    states = []
    for s_, chosen in hs:
        sts = [s_]
        for op in list(history) + chosen:
            nxt = []
            for s2_ in sts:
                s2_.extra['root'] = s2_.extra['a']
                nxt += [s3 for s3, _ in streams.observe(m, J, s2_, None, ta, sa, [op], mf)]
            sts = nxt
        states += sts
    def call(s, name, args):
        outs = []
        for kind, s2, v in api.call(m, s, name, args):
            J.paths += 1
            if kind != 'ret': J.fail_path(m, s2, 'C14/C17: %s panics: %r' % (name, v), mf)
            else: outs.append((s2, v))
        return outs
    def hash_of(s, key, ty):
        res = []
        hs_ = Ref(Cell(HasherV())); s.extra['h'] = hs_
        name = ('<dyn source::Source as Hash>::hash::<HasherV>' if dyn else '<%s as Hash>::hash::<HasherV>' % ty)
        for s2, _ in call(s, name, [s.extra[key], s.extra['h']]):
            res.append((s2, list(sv(s2.extra['h']).log)))
        return res
    eqname_a = '<dyn source::Source as PartialEq>::eq' if dyn else '<%s as PartialEq>::eq' % ta
    for s in states:
        if ta != tb and not dyn:
            raise Inconclusive('different static types need dyn=True')
        for s1, ab in call(s, eqname_a, [s.extra['a'], s.extra['b']]):
            for s2, ba in call(s1, eqname_a if dyn else '<%s as PartialEq>::eq' % tb, [s1.extra['b'], s1.extra['a']]):
                for s3, la in hash_of(s2, 'a', ta):
                    for s4, lb in hash_of(s3, 'b', tb):
                        same = log_eq(la, lb)
                        if relation == 'equal':
                            J.prove(m, s4, zb(ab), 'C14: a == b is false although both were built from the same ingredients (history %s)' % (s4.extra.get('hist'),), mf)
                            J.prove(m, s4, zb(ba), 'C14: b == a is false (asymmetric equality)', mf)
                            J.prove(m, s4, zb(same), 'C14: equal values feed different streams into the hasher', mf)
                            # clone
                            for s5, cl in call(s4, '<%s as Clone>::clone' % ta, [s4.extra['a']]):
                                s5.extra['c'] = Ref(Cell(cl))
                                for s6, ca in call(s5, '<%s as PartialEq>::eq' % ta, [s5.extra['c'], s5.extra['a']]):
                                    J.prove(m, s6, zb(ca), 'C14: a clone is not equal to its original', mf)
                                    for s7, lc in hash_of(s6, 'c', ta):
                                        J.prove(m, s7, zb(log_eq(lc, la)), 'C14: a clone hashes differently from its original', mf)
                                        # the clone is observationally identical (source)
                                        s7.extra['root'] = s7.extra['c']
                                        for s8, raw in streams.observe(m, J, s7, None, ta, sa, ['source'], mf):
                                            s8.extra['root'] = s8.extra['b']
                                            for s9, raw2 in streams.observe(m, J, s8, None, tb, sb, ['source'], mf):
                                                from msx.contracts import as_str, str_eq
                                                def txt(v):
                                                    x = sv(v)
                                                    if isinstance(x, Enum): x = sv(x.payload[x.disc].f[0])
                                                    return as_str(x)
                                                J.prove(m, s9, zb(str_eq(txt(raw['source']), txt(raw2['source']))), 'C14: clone(a).source() differs from b.source() although a == b', mf)
                                                J.see('clone_checked')
                            # a == b: every observer answers the same on a (after its history) and on the untouched b
                            sx = s4.clone(); sx.extra['root'] = sx.extra['a']
                            OBS = ['source', 'size', 'map1', 'c1f0']
                            for s5, rawa in streams.observe(m, J, sx, None, ta, sa, OBS, mf):
                                s5.extra['root'] = s5.extra['b']
                                for s6, rawb in streams.observe(m, J, s5, None, tb, sb, OBS, mf):
                                    agree(m, J, s6, rawa, rawb, OBS, mf)
                            J.see('equal_checked')
                        else:
                            # one edit apart: the values must be told apart by == and by the hash stream, whenever the edit is real
                            differ = s4.extra.get('differ_cond', True)
                            J.prove(m, s4, z3.Implies(zb(differ), z3.Not(zb(ab))), 'C20/C14: a == b although they differ in something that changes source()/buffer()/map()', mf)
                            J.prove(m, s4, z3.Implies(zb(differ), z3.Not(zb(ba))), 'C20/C14: b == a although they differ', mf)
                            J.prove(m, s4, z3.Implies(zb(differ), z3.Not(zb(same))), 'C20: observably different sources feed the same stream into the hasher', mf)
                            J.see('differ_checked')
    J.samples.append({'a': tree_a, 'b': tree_b, 'relation': relation, 'dyn': dyn, 'history': list(history), 'history_slots': history_slots})
    return J.result(required_witnesses=['equal_checked' if relation == 'equal' else 'differ_checked'])


def agree(m, J, s, rawa, rawb, kinds, mf, depth=0):
    from lib import oracles
    mdl = J.model(m, s.pc)
    if mdl is None: return
    try:
        oa = streams.to_obs(m, s, mdl, rawa, m.idx); ob = streams.to_obs(m, s, mdl, rawb, m.idx)
    except streams.Undetermined as u:
        if depth > 30: raise Inconclusive('observation not determined by the path after 30 case splits')
        for side in (u.expr, z3.Not(u.expr)):
            if m.feasible(s, side):
                s2 = s.clone(); s2.pc.append(side); s2.model = None
                agree(m, J, s2, rawa, rawb, kinds, mf, depth + 1)
        return
    J.obligations += 1
    for k in kinds:
        if not oracles.same_obs(k, oa, ob):
            d = mf(mdl); d['oracle'] = 'C14: a == b, yet %s answers differently on a (after its history) and on b' % k
            J.cex.append(d); return
    J.discharged += 1


def eq_stable_job(jid, tree_a, tree_b, dyn=False, history_a=('hash',), history_b=('hash',), flavour='mir'):
    """C14: 'neither equality nor the hash of a value changes because an observer was called on it or because a cache was filled':
    a == b and both hash streams are taken BEFORE and AFTER an observer history on a and on b; the answers must not change."""
    idx = api.load(flavour); m = api.machine(idx, loop_bound=64); J = Job(jid, m)
    st = State()
    sym = streams.Sym(st, streams.ALPHA['q'])
    ra, sa = streams.build(idx, sym, tree_a, m, False)
    rb, sb = streams.build(idx, sym, tree_b, m, False)
    st.extra['a'] = ra if isinstance(ra, Ref) else Ref(Cell(ra))
    st.extra['b'] = rb if isinstance(rb, Ref) else Ref(Cell(rb))
    ta, tb = streams.type_name(streams.unbox(tree_a)), streams.type_name(streams.unbox(tree_b))
    if ta != tb and not dyn: raise Inconclusive('different static types need dyn=True')
    mf = lambda mdl: {'family': 'eqhash', 'a': streams.concretize_spec(mdl, sa), 'b': streams.concretize_spec(mdl, sb), 'relation': 'stable', 'dyn': dyn,
                      'history': list(history_a), 'history_b': list(history_b)}
    def call(s, name, args):
        outs = []
        for kind, s2, v in api.call(m, s, name, args):
            J.paths += 1
            if kind != 'ret': J.fail_path(m, s2, 'C14/C17: %s panics: %r' % (name, v), mf)
            else: outs.append((s2, v))
        return outs
    def hash_of(s, key, ty):
        s.extra['h'] = Ref(Cell(HasherV()))
        name = ('<dyn source::Source as Hash>::hash::<HasherV>' if dyn else '<%s as Hash>::hash::<HasherV>' % ty)
        return [(s2, list(sv(s2.extra['h']).log)) for s2, _ in call(s, name, [s.extra[key], s.extra['h']])]
    eqname = '<dyn source::Source as PartialEq>::eq' if dyn else '<%s as PartialEq>::eq' % ta
    def run_history(s, key, ty, spec, ops):
        sts = [s]
        for op in ops:
            nxt = []
            for s2 in sts:
                s2.extra['root'] = s2.extra[key]
                nxt += [s3 for s3, _ in streams.observe(m, J, s2, None, ty, spec, [op], mf)]
            sts = nxt
        return sts
    for s1, ab0 in call(st, eqname, [st.extra['a'], st.extra['b']]):
        for s2, la0 in hash_of(s1, 'a', ta):
            for s3, lb0 in hash_of(s2, 'b', tb):
                for s4 in run_history(s3, 'a', ta, sa, history_a):
                    for s5 in run_history(s4, 'b', tb, sb, history_b):
                        for s6, ab1 in call(s5, eqname, [s5.extra['a'], s5.extra['b']]):
                            for s7, ba1 in call(s6, eqname, [s6.extra['b'], s6.extra['a']]):
                                for s8, la1 in hash_of(s7, 'a', ta):
                                    for s9, lb1 in hash_of(s8, 'b', tb):
                                        J.prove(m, s9, zb(ab0) == zb(ab1), 'C14: a == b changed its answer after observers (%s on a, %s on b) were called' % (list(history_a), list(history_b)), mf)
                                        J.prove(m, s9, zb(ab1) == zb(ba1), 'C14: a == b and b == a disagree after the observer history', mf)
                                        J.prove(m, s9, zb(log_eq(la0, la1)), 'C14: the hash of a changed because observers were called', mf)
                                        J.prove(m, s9, zb(log_eq(lb0, lb1)), 'C14: the hash of b changed because observers were called', mf)
                                        J.prove(m, s9, z3.Implies(zb(ab1), zb(log_eq(la1, lb1))), 'C14: a == b with different hashes', mf)
                                        J.see('stable_checked')
    J.samples.append({'a': tree_a, 'b': tree_b, 'relation': 'stable', 'dyn': dyn, 'history_a': list(history_a), 'history_b': list(history_b)})
    return J.result(required_witnesses=['stable_checked'])

"""Stage S5 jobs (C18, C19 transmute site of cached_source.rs): two logical threads call observers on one shared source
(or on clones sharing its caches); every interleaving at the granularity of the library's shared-state accesses is explored
up to a bound on context switches. Decided: no deadlock, no panic, every answer equals the single-threaded answer computed on
an identical private copy, a cached map is never replaced / freed, no lifetime-extended reference outlives its target."""
import json
import z3
from .common import *
from . import streams
from msx import threads
from lib import oracles


def op_call(kind, tyname, idx):
    """-> (callable name or function, argument builder) for ThreadProg"""
    if kind in ('source', 'size'):
        return ('<%s as Source>::%s' % (tyname, kind), lambda m, st, p: [p_root(st, p)])
    if kind in ('map1', 'map0'):
        return ('<%s as Source>::map' % tyname, lambda m, st, p: [p_root(st, p), streams.map_options(idx, kind == 'map1', False)])
    if kind in ('c1f0', 'c0f0', 'c1f1', 'c0f1'):
        def args(m, st, p):
            cbs = [Ref(Cell(External('%s@%d' % (n, p.tid)))) for n in ('chunk', 'source', 'name')]
            return [p_root(st, p), streams.map_options(idx, kind[1] == '1', kind[3] == '1')] + cbs
        return ('<%s as StreamChunks>::stream_chunks' % tyname, args)
    if kind == 'hash':
        def args(m, st, p):
            from msx.textmodel import HasherV
            return [p_root(st, p), Ref(Cell(HasherV()))]
        return ('<%s as Hash>::hash::<HasherV>' % tyname, args)
    if kind == 'clone':
        return ('<%s as Clone>::clone' % tyname, lambda m, st, p: [p_root(st, p)])
    raise Inconclusive('thread op ' + kind)


def p_root(st, p):
    r = st.extra.get('root@%d' % p.tid)
    return r if r is not None else st.extra['root']


def conc_job(jid, tree, progs, max_switches=6, flavour='mir'):
    idx = api.load(flavour); m = api.machine(idx, loop_bound=64); J = Job(jid, m)
    st = State()
    sym = streams.Sym(st, streams.ALPHA['q'])
    root, spec = streams.build(idx, sym, tree, m)
    if root is not None: st.extra['root'] = root if isinstance(root, Ref) else Ref(Cell(root))
    tyname = streams.type_name(tree)
    mf = lambda mdl: {'family': 'threads', 'tree': streams.concretize_spec(mdl, spec), 'programs': progs, 'stress_replace': streams.oracles.has_kind(tree, ('replace',))}
    pre = streams.prepare(m, J, st, spec, mf)
    if len(pre) != 1: raise Inconclusive('construction forked')
    st = pre[0]
    # ---- single-threaded baseline on a private identical copy (same symbolic text, separate caches)
    broot, bspec = streams.build(idx, sym, streams.alt_of(spec, 'same'), m, False)
    st.extra['base'] = broot if isinstance(broot, Ref) else Ref(Cell(broot))
    base = {}
    kinds = sorted({k for pr in progs for k in pr if k not in ('clone', 'hash')})
    main_root = st.extra['root']
    for k in kinds:
        st.extra['root'] = st.extra['base']
        outs = list(streams.observe(m, J, st, None, tyname, bspec, [k], mf))
        if len(outs) != 1: raise Inconclusive('baseline observation %s forked or panicked' % k)
        st, raw = outs[0]
        base[k] = streams.to_obs(m, st, J.model(m, st.pc), raw, idx)
    st.extra['root'] = main_root_of(st, 'root_saved', main_root)
    # ---- threads
    def hook_replace(m_, s_, mapref, oldcell):
        T = s_.extra['thr']
        T['log'].append(('replaced', oldcell.id in s_.extra.get('handed', set())))
    m.hooks['dm_replace'] = hook_replace
    programs = []
    for tid, pr in enumerate(progs):
        ops = []
        for k in pr:
            ops.append(op_call(k, tyname, idx) + (k,))
        programs.append([(o[0], o[1]) for o in ops])
    def op_done(m_, s_, prog, v):
        k = progs[prog.tid][prog.pc_ - 1]
        if k == 'clone': s_.extra['root@%d' % prog.tid] = Ref(Cell(v))
        mine = [e for e in s_.events if e[0].endswith('@%d' % prog.tid)]
        s_.extra.setdefault('results', []).append((prog.tid, prog.pc_ - 1, k, v, mine))
        s_.events = [e for e in s_.events if not e[0].endswith('@%d' % prog.tid)]
    m.hooks['op_done'] = op_done
    threads.setup(m, st, programs, max_switches)
    st.extra['root_saved'] = st.extra['root']
    nsched = 0
    for kind, s, v in m.run(st):
        J.paths += 1; nsched += 1
        T = s.extra['thr']
        sched = T['sched']
        mfs = lambda mdl, T=T: dict(mf(mdl), schedule=T['sched'], log=[list(x) for x in T['log'] if x[0] in ('switch', 'replaced', 'blocked')])
        if kind == 'deadlock':
            J.fail_path(m, s, 'C18: deadlock: every unfinished thread waits for a lock', mfs); continue
        if kind != 'ret':
            J.fail_path(m, s, 'C18: a call panics / reads freed memory under this interleaving: %r' % (v,), mfs); continue
        J.obligations += 1
        bad = None
        for e in T['log']:
            if e[0] == 'replaced':
                bad = 'C18: a cached map was replaced (and the old one freed) after it had been stored' + ('; C19: a lifetime-extended reference to it had been handed out to a streaming caller' if e[1] else '')
        mdl = J.model(m, s.pc)
        for (tid, opi, k, val, evs) in s.extra.get('results', []):
            if k in ('clone', 'hash') or bad: continue
            raw = {k: ((evs_for(evs, tid), val) if k[0] == 'c' and k[2] == 'f' else val)}
            try: ob = streams.to_obs(m, s, mdl, raw, idx)
            except streams.Undetermined: raise Inconclusive('thread observation not determined')
            if not same_obs(k, ob, base[k]):
                bad = 'C18: thread %d op %s answers differently from the single-threaded run: %s vs %s' % (tid, k, short(ob), short(base[k]))
        if bad:
            d = mfs(mdl); d['oracle'] = bad; J.cex.append(d)
        else: J.discharged += 1
        if T['switches'] > 0: J.see('switched')
    J.see('ran')
    J.samples.append({'tree': tree, 'programs': progs, 'schedules_explored': nsched, 'max_switches': max_switches})
    return J.result(required_witnesses=['ran', 'switched'])


def main_root_of(st, key, dflt): return st.extra.get(key, dflt)


def evs_for(evs, tid):
    return [(n.split('@')[0], a) for (n, a) in evs if n.endswith('@%d' % tid)]


def short(o): return json.dumps(o, default=str)[:300]


def same_obs(k, a, b): return oracles.same_obs(k, a, b)

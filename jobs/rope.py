"""Engine S on the REAL rope.rs (its MIR is interpreted; the Rope contract of textmodel.py is switched off):
rope construction programs over pieces with symbolic content, every observer compared with the flat string (C16);
unchecked indexing is a checked contract whose failure is reported (C19)."""
import z3
from .common import *
from msx.textmodel import chars_of, is_boundary

ROPE = "Rope::<'_>"


def piece(st, spec, n0):
    """'?' = symbolic byte over {a, b} (never a line break: the shape of lines is concrete, the content symbolic)"""
    bs = []
    for ch in spec.encode('utf-8'):
        if ch == ord('?'):
            v = z3.BitVec('p%d' % n0[0], 8); n0[0] += 1
            st.pc.append(z3.Or(v == 97, v == 98)); bs.append(v)
        else: bs.append(ch)
    return StrV(tuple(bs))


def one(m, st, name, args):
    outs = api.call(m, st, name, args)
    if len(outs) != 1 or outs[0][1] is not st: raise Inconclusive('%s did not return exactly once (%d outcomes)' % (name, len(outs)))
    return outs[0][0], outs[0][2]


def repr_bytes(m, v):
    """flat bytes of a Rope value read off its representation (independent of the crate's to_string)"""
    v = sv(v)
    rp = v.f[0]
    idx = m.idx
    if rp.disc == idx.enums['Repr'].index('Light'): return list(sv(rp.payload[rp.disc].f[0]).bytes())
    vecv = sv(rp.payload[rp.disc].f[0])
    out = []
    for e in vecv.f:
        out.extend(sv(e.f[0]).bytes())
    return out


def bytes_eq(a, b):
    if len(a) != len(b): return False
    return b_and(*[byte_eq(x, y) for x, y in zip(a, b)])


def rope_job(jid, program, observe=('basic',), flavour='mir'):
    """program: list of steps over registers (python list of rope values kept in st.extra):
       ['new'] ['from', piece] ['from_iter', [pieces]] ['add', r, piece] ['append', r, r2] ['slice', r, a, b] ['clone', r]
       a, b: int or '?' (symbolic in [0, len+1]).  The flat model of every register is kept alongside."""
    idx = api.load(flavour); m = api.machine(idx, loop_bound=80, rope='real'); J = Job(jid, m)
    st = State(); n0 = [0]
    syms = []
    # ---- run the program; states fork on symbolic slice bounds
    states = [(st, [], [])]          # (state, flat models per register (list of byte lists), descriptions)
    prog_desc = []
    for step in program:
        op = step[0]
        nxt = []
        for s, flats, descs in states:
            regs = s.extra.setdefault('regs', [])
            mf = lambda mdl, s=s: {'family': 'rope', 'program': conc_program(mdl, program, s), 'observe': list(observe)}
            if op == 'new':
                k, v = one(m, s, ROPE + '::new', [])
                regs.append(Ref(Cell(v))); nxt.append((s, flats + [[]], descs))
            elif op == 'from':
                p = piece(s, step[1], n0)
                k, v = one(m, s, "<Rope<'_> as From<&str>>::from", [p])
                regs.append(Ref(Cell(v))); nxt.append((s, flats + [list(p.bytes())], descs))
            elif op == 'from_iter':
                ps = [piece(s, x, n0) for x in step[1]]
                k, v = one(m, s, "<Rope<'_> as FromIterator<&str>>::from_iter::<[&str; %d]>" % len(ps), [Agg(ps)])
                regs.append(Ref(Cell(v))); nxt.append((s, flats + [[b for p in ps for b in p.bytes()]], descs))
            elif op == 'add':
                p = piece(s, step[2], n0)
                k, v = one(m, s, ROPE + '::add', [regs[step[1]], p])
                f2 = list(flats); f2[step[1]] = flats[step[1]] + list(p.bytes()); nxt.append((s, f2, descs))
            elif op == 'append':
                other = copy_val(deref(regs[step[2]]))
                k, v = one(m, s, ROPE + '::append', [regs[step[1]], other])
                f2 = list(flats); f2[step[1]] = flats[step[1]] + flats[step[2]]; nxt.append((s, f2, descs))
            elif op == 'clone':
                k, v = one(m, s, "<Rope<'_> as Clone>::clone", [regs[step[1]]])
                regs.append(Ref(Cell(v))); nxt.append((s, flats + [list(flats[step[1]])], descs))
            elif op == 'slice':
                n = len(flats[step[1]])
                ab = []
                for i, x in enumerate(step[2:4]):
                    if x == '?':
                        var = z3.BitVec('s%d_%d' % (len(syms), i), 64); s.pc.append(z3.ULE(var, n + 1)); ab.append(IntV(var, 'usize'))
                    else: ab.append(IntV(x, 'usize'))
                syms.append(ab)
                form = step[4] if len(step) > 4 else 'range'
                FORMS = {'range': ('std::ops::Range<usize>', lambda a, b: Agg([a, b], 'Range')),
                         'to': ('std::ops::RangeTo<usize>', lambda a, b: Agg([b], 'RangeTo')),
                         'to_incl': ('std::ops::RangeToInclusive<usize>', lambda a, b: Agg([b], 'RangeToInclusive')),
                         'from': ('std::ops::RangeFrom<usize>', lambda a, b: Agg([a], 'RangeFrom')),
                         'incl': ('std::ops::RangeInclusive<usize>', lambda a, b: Agg([a, b, False], 'RangeInclusive'))}
                tyname, mk = FORMS[form]
                rng = mk(ab[0], ab[1])
                # effective half-open byte range [ea, eb) of the form (mathematical integers: ..=usize::MAX style overflow is outside the bound)
                if form == 'to': ab = [IntV(0, 'usize'), ab[1]]
                elif form == 'to_incl': ab = [IntV(0, 'usize'), binop('Add', ab[1], IntV(1, 'usize'))]
                elif form == 'from': ab = [ab[0], IntV(n, 'usize')]
                elif form == 'incl': ab = [ab[0], binop('Add', ab[1], IntV(1, 'usize'))]
                for kind, s2, v in api.call(m, s, ROPE + '::get_byte_slice::<%s>' % tyname, [regs[step[1]], rng]):
                    J.paths += 1
                    mf2 = lambda mdl, s2=s2: {'family': 'rope', 'program': conc_program(mdl, program, s2), 'observe': list(observe)}
                    if kind != 'ret':
                        J.fail_path(m, s2, 'C16/C19: get_byte_slice panics / violates an unsafe precondition: %r' % (v,), mf2); continue
                    mdl = J.model(m, s2.pc)
                    flat = StrV(tuple(flats[step[1]]))
                    za, zb_ = zi(ab[0]), zi(ab[1])
                    bnd = [k for k in range(n + 1) if is_boundary(flat, k)]
                    valid_f = z3.And(z3.ULE(za, zb_), z3.ULE(zb_, n), z3.Or([za == k for k in bnd]), z3.Or([zb_ == k for k in bnd]))
                    J.obligations += 1
                    want_some = v.disc == 1
                    # the verdict must agree with the validity of the range for EVERY value on this path
                    sat, mdl2 = m.check(s2.pc, valid_f if not want_some else z3.Not(valid_f))
                    if sat:
                        a_, b_ = mval(mdl2, za), mval(mdl2, zb_)
                        J.cex.append(dict(mf2(mdl2), oracle='C16: get_byte_slice(%d..%d) on a rope of %d bytes returned %s but the range is %s' % (a_, b_, n, 'Some' if want_some else 'None', 'reversed / out of bounds / off a char boundary' if want_some else 'valid'))); continue
                    J.discharged += 1
                    if want_some:
                        a_, b_ = det(m, s2, mdl, ab[0]), det(m, s2, mdl, ab[1])
                        if a_ is None or b_ is None: raise Inconclusive('bounds of a successful slice are not determined by the path')
                    if v.disc == 1:
                        s2.extra['regs'].append(Ref(Cell(v.payload[1].f[0])))
                        nxt.append((s2, flats + [flats[step[1]][a_:b_]], descs))
                        J.see('slice_some')
                    else: J.see('slice_none')
            elif op == 'line':
                # ['line', r, k]: the k-th item of r.lines() becomes a new register (every observer then applies to it)
                k_, itv = one(m, s, ROPE + '::lines_impl', [regs[step[1]], True])
                itr = Ref(Cell(itv)); items = []
                while True:
                    k_, v = one(m, s, "<rope::Lines<'_, '_> as Iterator>::next", [itr])
                    if v.disc == 0: break
                    items.append(v.payload[1].f[0])
                    if len(items) > 40: raise Inconclusive('lines() yields more than 40 items')
                exp = split_flat(flats[step[1]], True)
                if len(items) != len(exp) or step[2] >= len(items):
                    J.fail_path(m, s, 'C16: lines() yields %d lines, the flat string has %d' % (len(items), len(exp)), mf); continue
                regs.append(Ref(Cell(items[step[2]]))); nxt.append((s, flats + [exp[step[2]]], descs))
            else:
                raise Inconclusive('rope program step ' + op)
        states = nxt
    # ---- observers on every final state
    for s, flats, _ in states:
        check_observers(m, J, s, flats, observe, program)
    J.see('ran')
    J.samples.append({'program': program, 'observers': list(observe)})
    return J.result(required_witnesses=['ran'])


def det(m, st, mdl, v):
    if isinstance(v.e, int): return v.e
    k = mval(mdl, v.e)
    return k if m.valid(st, zi(v) == z3.BitVecVal(k, 64)) else None


def conc_program(mdl, program, st):
    """concrete program for the native replay: pieces and slice bounds from the model"""
    out = []; n = [0]; si = [0]
    for step in program:
        def cp(spec):
            bs = bytearray()
            for ch in spec.encode('utf-8'):
                if ch == ord('?'):
                    bs.append(mval(mdl, z3.BitVec('p%d' % n[0], 8))); n[0] += 1
                else: bs.append(ch)
            return bs.decode('utf-8')
        if step[0] == 'from': out.append(['from', cp(step[1])])
        elif step[0] == 'from_iter': out.append(['from_iter', [cp(x) for x in step[1]]])
        elif step[0] == 'add': out.append(['add', step[1], cp(step[2])])
        elif step[0] == 'slice':
            ab = []
            for i, x in enumerate(step[2:4]):
                ab.append(mval(mdl, z3.BitVec('s%d_%d' % (si[0], i), 64)) if x == '?' else x)
            si[0] += 1
            out.append(['slice', step[1]] + ab + list(step[4:5]))
        else: out.append(list(step))
    return out


def check_observers(m, J, s0, flats, observe, program):
    regs = s0.extra['regs']
    mf = lambda mdl: {'family': 'rope', 'program': conc_program(mdl, program, s0), 'observe': list(observe)}
    def run(s, name, args):
        # every observer starts from a private copy of the state: a call that forks consumes the state it is given
        s = s.clone()
        args = [s.extra['regs'][a[1]] if isinstance(a, tuple) and a and a[0] == 'reg' else (s.extra['it'] if a == ('it',) else a) for a in args]
        outs = api.call(m, s, name, args)
        res = []
        for kind, s2, v in outs:
            J.paths += 1
            if kind != 'ret':
                J.fail_path(m, s2, 'C16/C19: %s panics / violates an unsafe precondition: %r' % (name.split('::')[-1], v), lambda mdl, s2=s2: {'family': 'rope', 'program': conc_program(mdl, program, s2), 'observe': list(observe)})
            else: res.append((s2, v))
        return res
    for ri in range(len(flats)):
        flat = flats[ri]; fs = StrV(tuple(flat)); n = len(flat)
        who = 'rope r%d' % ri
        def expect(s, cond, what):
            J.prove(m, s, cond, 'C16: %s: %s' % (who, what), lambda mdl, s=s: {'family': 'rope', 'program': conc_program(mdl, program, s), 'observe': list(observe), 'register': ri})
        s = s0
        if 'basic' in observe:
            for s2, v in run(s, ROPE + '::len', [('reg', ri)]): expect(s2, binop('Eq', v, IntV(n, 'usize')), 'len() is not %d' % n)
            for s2, v in run(s, ROPE + '::is_empty', [('reg', ri)]): expect(s2, binop('Eq', v, n == 0), 'is_empty() is not %r' % (n == 0))
            for s2, v in run(s, "<Rope<'_> as ToString>::to_string", [('reg', ri)]):
                expect(s2, bytes_eq(list(sv(v).bytes()), flat), 'to_string() differs from the flat string')
            for s2, v in run(s, ROPE + '::to_bytes', [('reg', ri)]):
                x = sv(v)
                if isinstance(x, Enum): x = sv(x.payload[x.disc].f[0])
                bs = list(x.bytes()) if isinstance(x, StrV) else [b.e for b in x.f]
                expect(s2, bytes_eq(bs, flat), 'to_bytes() differs from the flat string')
            for ch in (10, 97):
                for s2, v in run(s, ROPE + '::ends_with', [('reg', ri), IntV(ch, 'char')]):
                    exp_ = byte_eq(flat[-1], ch) if n else False
                    expect(s2, binop('Eq', v, exp_) if not isinstance(v, bool) or not isinstance(exp_, bool) else v == exp_, 'ends_with(%r) wrong' % chr(ch))
        if 'bytes' in observe:
            for i in range(n + 2):
                for s2, v in run(s, ROPE + '::get_byte', [('reg', ri), IntV(i, 'usize')]):
                    if i < n:
                        ok_ = v.disc == 1 and True
                        expect(s2, False if v.disc != 1 else byte_eq(v.payload[1].f[0].e, flat[i]), 'get_byte(%d) wrong' % i)
                    else: expect(s2, v.disc == 0, 'get_byte(%d) is Some beyond the end' % i)
        if 'chars' in observe:
            for s2, v in run(s, ROPE + '::char_indices', [('reg', ri)]):
                s2.extra['it'] = Ref(Cell(v))
                got = collect_iter(m, J, s2, "<CharIndices<'_, '_> as Iterator>::next", run)
                for s3, items in got:
                    exp = chars_of(fs)
                    if len(items) != len(exp): expect(s3, False, 'char_indices() yields %d items, the flat string has %d chars' % (len(items), len(exp))); continue
                    conds = []
                    for it_, (ei, ec) in zip(items, exp):
                        conds.append(binop('Eq', it_.f[0], IntV(ei, 'usize'))); conds.append(binop('Eq', it_.f[1], ec))
                    expect(s3, b_and(*conds), 'char_indices() differs from the flat string')
        if 'lines' in observe:
            for trailing, name in ((True, 'lines()'), (False, 'lines_impl(false)')):
                for s2, v in run(s, ROPE + '::lines_impl', [('reg', ri), trailing]):
                    s2.extra['it'] = Ref(Cell(v))
                    for s3, items in collect_iter(m, J, s2, "<rope::Lines<'_, '_> as Iterator>::next", run):
                        exp = split_flat(flat, trailing)
                        if len(items) != len(exp): expect(s3, False, '%s yields %d lines, the flat string has %d' % (name, len(items), len(exp))); continue
                        expect(s3, b_and(*[bytes_eq(repr_bytes(m, it_), e) for it_, e in zip(items, exp)]), '%s differs from the lines of the flat string' % name)
    if 'pairs' in observe:
        for a in range(len(flats)):
            for b in range(len(flats)):
                s = s0
                fa, fb = flats[a], flats[b]
                eq = bytes_eq(fa, fb)
                for s2, v in run(s, "<Rope<'_> as PartialEq>::eq", [('reg', a), ('reg', b)]):
                    J.prove(m, s2, zb(v) == zb(eq), 'C16: r%d == r%d answers differently from the flat strings' % (a, b), mf)
                pre = bytes_eq(fa[:len(fb)], fb) if len(fb) <= len(fa) else False
                for s2, v in run(s, ROPE + '::starts_with', [('reg', a), ('reg', b)]):
                    J.prove(m, s2, zb(v) == zb(pre), 'C16: r%d.starts_with(r%d) answers differently from the flat strings' % (a, b), mf)
                for s2, v in run(s, "<Rope<'_> as PartialEq<&str>>::eq", [("reg", a), Ref(Cell(StrV(tuple(fb))))]):
                    J.prove(m, s2, zb(v) == zb(eq), 'C16: r%d == &str(flat of r%d) answers differently from the flat strings' % (a, b), mf)


def split_flat(flat, trailing):
    out, cur = [], []
    for b in flat:
        cur.append(b)
        if isinstance(b, int) and b == 10: out.append(cur); cur = []
    if cur: out.append(cur)
    elif trailing and (not flat or (isinstance(flat[-1], int) and flat[-1] == 10)): out.append([])
    return out


def collect_iter(m, J, s, next_name, run, limit=40):
    done, work = [], [(s, [])]
    while work:
        st, acc = work.pop()
        if len(acc) > limit: raise Inconclusive('iterator yields more than %d items' % limit)
        for s2, v in run(st, next_name, [('it',)]):
            if v.disc == 0: done.append((s2, acc))
            else: work.append((s2, acc + [v.payload[1].f[0]]))
    return done


def pieces_of(mdl, text):
    out, n = [], 0
    for p_ in text:
        bs = bytearray()
        for ch in p_.encode('utf-8'):
            if ch == ord('?'): bs.append(mval(mdl, z3.BitVec('p%d' % n, 8))); n += 1
            else: bs.append(ch)
        out.append(bs.decode('utf-8'))
    return out


def with_indices_job(jid, text, kind='str', flavour='mir'):
    """WithIndices::substring(i, j) with SYMBOLIC char indices (including huge values) on &str / real Rope lines over
    multi-byte text: the unchecked byte slicing must stay on char boundaries (C19) and return the char-wise substring."""
    idx = api.load(flavour); m = api.machine(idx, loop_bound=80, rope='real'); J = Job(jid, m)
    st = State(); n0 = [0]
    if kind == 'str':
        line = piece(st, text, n0); flat = list(line.bytes()); sty = '&str'
    else:
        ps = [piece(st, x, n0) for x in text]
        k, line = one(m, st, "<Rope<'_> as FromIterator<&str>>::from_iter::<[&str; %d]>" % len(ps), [Agg(ps)])
        flat = [b for p in ps for b in p.bytes()]; sty = "Rope<'_>"
    k, wi = one(m, st, "WithIndices::<'_, %s>::new" % sty, [line])
    st.extra['wi'] = Ref(Cell(wi))
    fs = StrV(tuple(flat))
    chars = chars_of(fs)
    nchar = len(chars)
    i, j = z3.BitVec('i', 64), z3.BitVec('j', 64)
    # every index in range, one beyond, and anything huge (usize::MAX is what callers pass for "to the end")
    st.pc.append(z3.Or(z3.ULE(i, nchar + 1), i == z3.BitVecVal(2**64 - 1, 64)))
    st.pc.append(z3.Or(z3.ULE(j, nchar + 1), j == z3.BitVecVal(2**64 - 1, 64)))
    mf = lambda mdl: {'family': 'with_indices', 'text': bytes(mval(mdl, b) for b in flat).decode('utf-8'), 'pieces': pieces_of(mdl, text) if kind != 'str' else None, 'i': mval(mdl, i), 'j': mval(mdl, j)}
    for kind_, s, v in api.call(m, st, "WithIndices::<'_, %s>::substring" % sty, [st.extra['wi'], IntV(i, 'usize'), IntV(j, 'usize')]):
        J.paths += 1
        if kind_ != 'ret':
            J.fail_path(m, s, 'C19: WithIndices::substring reaches an unsafe operation outside its precondition / panics: %r' % (v,), mf); continue
        mdl = J.model(m, s.pc)
        iv_, jv_ = mval(mdl, i), mval(mdl, j)
        if m.valid(s, z3.ULE(j, i)):
            iv_, jv_ = 1, 0                 # every value on this path has end <= start: the substring is empty
        elif not (m.valid(s, i == iv_) and m.valid(s, j == jv_)):
            # several values share this path: the expected substring must be the same for all of them
            a_ = min(iv_, nchar); b_ = min(jv_, nchar)
            same = z3.And(z3.If(z3.ULT(i, nchar), i, z3.BitVecVal(nchar, 64)) == a_, z3.If(z3.ULT(j, nchar), j, z3.BitVecVal(nchar, 64)) == b_, z3.UGT(j, i))
            if not m.valid(s, same): raise Inconclusive('substring indices not determined by the path')
        offs = [c[0] for c in chars] + [len(flat)]
        a_ = offs[min(iv_, nchar)]; b_ = offs[min(jv_, nchar)]
        exp = [] if jv_ <= iv_ else flat[a_:b_]
        got = repr_bytes(m, v) if not isinstance(sv(v), StrV) else list(sv(v).bytes())
        J.prove(m, s, bytes_eq(got, exp), 'C19/C16: substring(%d, %d) is not the char-wise substring' % (iv_, jv_), mf)
        J.see('nonempty' if exp else 'empty')
    J.samples.append({'text': text, 'kind': kind, 'indices': 'symbolic in [0, chars+1] or usize::MAX'})
    return J.result(required_witnesses=['nonempty', 'empty'] if nchar else ['empty'])

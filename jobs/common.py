"""Shared helpers for S jobs: result records, symbolic input builders, the independent source-map-v3 VLQ spec."""
import time, json, os, sys, traceback
import z3
sys.path.insert(0, os.path.dirname(os.path.dirname(os.path.abspath(__file__))))
from msx import api
from msx.mir import Inconclusive
from msx.values import *
from msx.machine import Panic, State

B64_ALPHABET = b'ABCDEFGHIJKLMNOPQRSTUVWXYZabcdefghijklmnopqrstuvwxyz0123456789+/'


class Job:
    """accumulates what one job decided"""

    def __init__(self, jid, m=None):
        self.id = jid
        self.t0 = time.time()
        self.obligations = 0          # solver-decided assertions
        self.discharged = 0
        self.paths = 0
        self.cex = []                 # counterexamples (JSON-able dicts)
        self.witness = {}             # reachability witnesses name -> bool
        self.samples = []
        self.notes = []
        self.machines = []
        if m is not None: self.machines.append(m)

    def use(self, m):
        self.machines.append(m); return m

    def model(self, m, pc, extra=None, small=()):
        """a model of pc (+extra), preferring one that also satisfies the `small` hints (small counterexamples replay fast)"""
        for k in range(len(small), -1, -1):
            hint = list(small[:k])
            e = z3.And(hint + ([extra] if extra is not None else [])) if (hint or extra is not None) else None
            sat, mdl = m.check(pc, e)
            if sat: return mdl
        return None

    def prove(self, m, st, cond, what, model_fn=None, small=()):
        """obligation: cond holds on every model of st.pc. Returns True if discharged; records a counterexample otherwise."""
        self.obligations += 1
        c = conc_bool(cond)
        if c is True:
            self.discharged += 1; return True
        neg = z3.Not(zb(cond)) if c is None else True
        sat, mdl = m.check(st.pc, neg if c is None else None)
        if not sat:
            self.discharged += 1; return True
        if small:
            mdl = self.model(m, st.pc, neg if c is None else None, small) or mdl
        cx = {'oracle': what}
        if model_fn is not None:
            try: cx.update(model_fn(mdl))
            except Exception as e: cx['model_error'] = repr(e)
        self.cex.append(cx)
        return False

    def fail_path(self, m, st, what, model_fn, small=()):
        """the path st itself is the violation (a reachable panic ...)"""
        mdl = self.model(m, st.pc, None, small)
        self.obligations += 1
        d = {'oracle': what}
        try: d.update(model_fn(mdl))
        except Exception as e: d['model_error'] = repr(e)
        self.cex.append(d)

    def fail(self, what, **kw):
        self.obligations += 1
        d = {'oracle': what}; d.update(kw); self.cex.append(d)

    def see(self, name, ok=True):
        self.witness[name] = self.witness.get(name, False) or bool(ok)

    def result(self, status=None, required_witnesses=()):
        q = sum(m.queries for m in self.machines)
        ts = sum(m.solver_time for m in self.machines)
        items = {}
        contracts = set()
        for m in self.machines:
            for n, it in m.items_used.items(): items[n] = [it.nlines(), it.digest()]
            contracts |= m.contracts_used
        missing = [w for w in required_witnesses if not self.witness.get(w)]
        if status is None:
            if self.cex: status = 'violation'
            elif missing: status = 'inconclusive'
            else: status = 'pass'
        r = dict(id=self.id, status=status, obligations=self.obligations, discharged=self.discharged, paths=self.paths,
                 queries=q, solver_s=round(ts, 3), wall_s=round(time.time() - self.t0, 3), cex=self.cex[:5], n_cex=len(self.cex),
                 witness=self.witness, samples=self.samples[:3], notes=self.notes, items=items, contracts=sorted(contracts))
        r['known'] = list(getattr(self, 'known', {}).values())
        if missing: r['notes'] = self.notes + ['vacuity: witnesses not reached: ' + ', '.join(missing)]
        return r


def run_job(fn, params):
    """wrapper used by the runner: never lets an exception escape as a pass"""
    t0 = time.time()
    try:
        return fn(**params)
    except Inconclusive as e:
        return dict(id=params.get('jid', fn.__name__), status='inconclusive', reason=str(e)[:2000], obligations=0, discharged=0,
                    paths=0, queries=0, solver_s=0, wall_s=round(time.time() - t0, 3), cex=[], witness={}, samples=[], notes=[], items={}, contracts=[])
    except Exception as e:
        return dict(id=params.get('jid', fn.__name__), status='inconclusive', reason='internal error: ' + ''.join(traceback.format_exception(type(e), e, e.__traceback__))[-3000:],
                    obligations=0, discharged=0, paths=0, queries=0, solver_s=0, wall_s=round(time.time() - t0, 3), cex=[], witness={}, samples=[], notes=[], items={}, contracts=[])


# ------------------------------------------------------------------------------------------ model evaluation
def mval(mdl, e):
    """concrete python value of e (int|bool|z3 expr) under model"""
    if isinstance(e, (int, bool)) or e is None: return e
    if isinstance(e, IntV): return mval(mdl, e.e)
    v = mdl.eval(e, model_completion=True)
    if z3.is_bv_value(v): return v.as_long()
    if z3.is_true(v): return True
    if z3.is_false(v): return False
    raise Inconclusive('model evaluation of ' + str(e))


# ------------------------------------------------------------------------------------------ symbolic mappings
def sym_u32(name): return IntV(z3.BitVec(name, 32), 'u32')


def mk_mapping(idx, line, col, orig):
    """orig: None | (src, oline, ocol, name|None) of IntV;  or a pair (has_orig Bool, (.., (has_name Bool, name)))"""
    if orig is None: o = none()
    else:
        si, ol, oc, ni = orig
        nm = none() if ni is None else some(ni)
        o = some(idx.mk('OriginalLocation', source_index=si, original_line=ol, original_column=oc, name_index=nm))
    return idx.mk('Mapping', generated_line=line, generated_column=col, original=o)


def read_mapping(idx, v):
    """-> (line, col, None | (src, ol, oc, None|name)) of a concrete-shaped Mapping value"""
    v = sv(v)
    line = v.f[idx.fld('Mapping', 'generated_line')]; col = v.f[idx.fld('Mapping', 'generated_column')]
    o = v.f[idx.fld('Mapping', 'original')]
    if not isinstance(o.disc, int): raise Inconclusive('symbolic Option discriminant in a produced mapping')
    if o.disc == 0: return (line, col, None)
    ol = o.payload[1].f[0]
    nm = ol.f[idx.fld('OriginalLocation', 'name_index')]
    if not isinstance(nm.disc, int): raise Inconclusive('symbolic name discriminant in a produced mapping')
    return (line, col, (ol.f[idx.fld('OriginalLocation', 'source_index')], ol.f[idx.fld('OriginalLocation', 'original_line')],
                        ol.f[idx.fld('OriginalLocation', 'original_column')], None if nm.disc == 0 else nm.payload[1].f[0]))


def z(v):
    return zi(v) if isinstance(v, IntV) else v


# ------------------------------------------------------------------------------------------ v3 VLQ spec (independent)
def spec_b64_value(c):
    """6-bit value of base64 character c (z3 BV8 or int); 255 when c is not in the alphabet (RFC 4648 table, written by ranges)"""
    if isinstance(c, int):
        i = B64_ALPHABET.find(bytes([c])); return i if i >= 0 else 255
    B = lambda x: z3.BitVecVal(x, 8)
    return z3.If(z3.And(z3.UGE(c, B(65)), z3.ULE(c, B(90))), c - B(65),
           z3.If(z3.And(z3.UGE(c, B(97)), z3.ULE(c, B(122))), c - B(71),
           z3.If(z3.And(z3.UGE(c, B(48)), z3.ULE(c, B(57))), c + B(4),
           z3.If(c == B(43), B(62), z3.If(c == B(47), B(63), B(255))))))


def spec_b64_char(v):
    """character of 6-bit value v (z3 BV8, < 64)"""
    B = lambda x: z3.BitVecVal(x, 8)
    return z3.If(z3.ULT(v, B(26)), v + B(65), z3.If(z3.ULT(v, B(52)), v + B(71), z3.If(z3.ULT(v, B(62)), v - B(4), z3.If(v == B(62), B(43), B(47)))))


def spec_vlq_digits_ok(delta64, out_bytes):
    """Boolean: out_bytes (list of BV8/int) is THE base64-VLQ spelling (minimal, as the format's reference encoder emits)
    of the signed 64-bit value delta64"""
    k = len(out_bytes)
    neg = delta64 < 0
    mag = z3.If(neg, -delta64, delta64)
    vlq = (mag << 1) | z3.If(neg, z3.BitVecVal(1, 64), z3.BitVecVal(0, 64))
    conds = []
    for i, b in enumerate(out_bytes):
        grp = z3.Extract(7, 0, z3.LShR(vlq, 5 * i) & 31)
        if i < k - 1: grp = grp | z3.BitVecVal(32, 8)
        bb = z3.BitVecVal(b, 8) if isinstance(b, int) else b
        conds.append(bb == spec_b64_char(grp))
    conds.append(z3.LShR(vlq, 5 * k) == 0)
    if k > 1: conds.append(z3.LShR(vlq, 5 * (k - 1)) != 0)
    return z3.And(conds)


def attr_of(segs, line, col):
    """attribution of position (line, col) by a list of segments [(l, c, None|(s, ol, oc, name|None))] (ints or z3):
    greatest segment on that line at or before col (later list entries win ties). Returns (mapped Bool, s, ol, oc, has_name Bool, name)"""
    zero = z3.BitVecVal(0, 32)
    mapped, s, ol, oc, hn, nm = z3.BoolVal(False), zero, zero, zero, z3.BoolVal(False), zero
    # candidates in order; pick the one with the greatest column <= col (ties: the later one)
    best_col = z3.BitVecVal(0, 32); found = z3.BoolVal(False)
    for (l, c, o) in segs:
        l, c = zz(l), zz(c)
        hit = z3.And(l == zz(line), z3.ULE(c, zz(col)), z3.Or(z3.Not(found), z3.UGE(c, best_col)))
        best_col = z3.If(hit, c, best_col); found = z3.Or(found, hit)
        if o is None:
            mapped = z3.If(hit, z3.BoolVal(False), mapped)
        else:
            mapped = z3.If(hit, z3.BoolVal(True), mapped)
            s = z3.If(hit, zz(o[0]), s); ol = z3.If(hit, zz(o[1]), ol); oc = z3.If(hit, zz(o[2]), oc)
            hn = z3.If(hit, z3.BoolVal(o[3] is not None), hn)
            nm = z3.If(hit, zz(o[3]) if o[3] is not None else zero, nm)
    return mapped, s, ol, oc, hn, nm


def zz(v):
    if isinstance(v, IntV): return zi(v)
    if isinstance(v, int): return z3.BitVecVal(v, 32)
    return v


def attr_equal(a, b):
    ma, sa, la, ca, ha, na = a; mb, sb, lb, cb, hb, nb = b
    return z3.And(ma == mb, z3.Implies(ma, z3.And(sa == sb, la == lb, ca == cb, ha == hb, z3.Implies(ha, na == nb))))


def seg_json(mdl, seg):
    l, c, o = seg
    if o is None: return [mval(mdl, l), mval(mdl, c)]
    r = [mval(mdl, l), mval(mdl, c), mval(mdl, o[0]), mval(mdl, o[1]), mval(mdl, o[2])]
    if o[3] is not None: r.append(mval(mdl, o[3]))
    return r

"""Engine S, stage S1: the mappings codec (encoder.rs, decoder.rs, encode_mappings / decode_mappings).
Properties served: C12 (round trip, format), C11 (alphabet / structure of produced strings), C17 (decoder never panics),
C19 (from_utf8_unchecked only on ASCII)."""
import itertools
import z3
from .common import *

ENC_ENCODE = '<FullMappingsEncoder as MappingsEncoder>::encode'
DEC_NEXT = "<MappingsDecoder<'_> as Iterator>::next"


def _ascii_hook(J):
    def h(m, st, bs):
        if bs:
            J.prove(m, st, z3.And([z3.ULT(zbyte(b), z3.BitVecVal(0x80, 8)) for b in bs]), 'C19: from_utf8_unchecked reached with a non-ASCII byte', lambda mdl: {'family': 'utf8'})
            J.prove(m, st, z3.And([z3.Or([zbyte(b) == z3.BitVecVal(c, 8) for c in B64_ALPHABET + b',;']) for b in bs if not isinstance(b, int) or b not in B64_ALPHABET + b',;'] or [z3.BoolVal(True)]),
                    'C11: mappings string contains a byte outside base64 / "," / ";"', lambda mdl: {'family': 'alphabet'})
        J.see('drain')
    return h


def zbyte(b): return z3.BitVecVal(b, 8) if isinstance(b, int) else b


# ------------------------------------------------------------------------------------------ kernel
def vlq_kernel(jid, flavour='mir', bits=30):
    idx = api.load(flavour); m = api.machine(idx); J = Job(jid, m)
    a, b = z3.BitVec('a', 32), z3.BitVec('b', 32)
    out = Cell(vec([]))
    st = api.start(m, 'encode_vlq', [Ref(out), IntV(a, 'u32'), IntV(b, 'u32')])
    st.extra['out'] = Ref(out)
    lim = z3.BitVecVal(1 << bits, 32)
    st.pc.append(z3.Or(z3.And(z3.UGE(a, b), z3.ULT(a - b, lim)), z3.And(z3.ULT(a, b), z3.ULT(b - a, lim))))
    mf = lambda mdl: {'family': 'vlq', 'a': mval(mdl, a), 'b': mval(mdl, b)}
    for kind, s, v in m.run(st):
        J.paths += 1
        if kind != 'ret':
            ok_, mdl = m.check(s.pc)
            J.fail('encode_vlq panics inside its domain: ' + repr(v), **mf(mdl)); continue
        bs = [x.e for x in sv(s.extra['out']).f]
        delta = z3.ZeroExt(32, a) - z3.ZeroExt(32, b)
        J.prove(m, s, spec_vlq_digits_ok(delta, bs), 'encode_vlq(a,b) is not the base64-VLQ spelling of a-b', mf)
        J.see('digits_%d' % len(bs))
    J.samples.append('for all u32 a,b with |a-b| < 2^%d: bytes pushed by encode_vlq == VLQ(a-b) (minimal spelling, sign in bit 0)' % bits)
    need = ['digits_%d' % k for k in range(1, min(7, (bits + 1 + 4) // 5) + 1)]
    return J.result(required_witnesses=need)


# ------------------------------------------------------------------------------------------ helpers
def sym_mappings(idx, st, shape, bits, maxgap, strict=True, prefix='m'):
    """shape: list of field counts (1|4|5). Returns (values, segs) and appends sortedness / range assumptions to st.pc"""
    vals, segs = [], []
    lim = z3.BitVecVal(1 << bits, 32)
    prev = None
    for i, k in enumerate(shape):
        l, c = z3.BitVec('%s%d_l' % (prefix, i), 32), z3.BitVec('%s%d_c' % (prefix, i), 32)
        st.pc.append(z3.ULT(c, lim))
        if prev is None:
            st.pc.append(z3.And(z3.UGE(l, 1), z3.ULE(l, 1 + maxgap)))
        else:
            pl, pc_ = prev
            st.pc.append(z3.And(z3.UGE(l, pl), z3.ULE(l - pl, maxgap)))
            st.pc.append(z3.Implies(l == pl, z3.UGT(c, pc_) if strict else z3.UGE(c, pc_)))
        prev = (l, c)
        if k == 1: o = None
        else:
            s_, ol, oc = [z3.BitVec('%s%d_%s' % (prefix, i, n), 32) for n in ('s', 'ol', 'oc')]
            for x in (s_, ol, oc): st.pc.append(z3.ULT(x, lim))
            st.pc.append(z3.UGE(ol, 1))
            nm = None
            if k == 5:
                nm = z3.BitVec('%s%d_n' % (prefix, i), 32); st.pc.append(z3.ULT(nm, lim))
            o = (IntV(s_, 'u32'), IntV(ol, 'u32'), IntV(oc, 'u32'), None if nm is None else IntV(nm, 'u32'))
        vals.append(mk_mapping(idx, IntV(l, 'u32'), IntV(c, 'u32'), o))
        segs.append((IntV(l, 'u32'), IntV(c, 'u32'), o))
    return vals, segs


def decode_all(m, J, st, limit):
    """drive MappingsDecoder::next on st.extra['dec'] until None. -> [(state, [segments])]; panics are recorded on J"""
    done = []
    work = [(st, [])]
    while work:
        s, acc = work.pop()
        if len(acc) > limit: raise Inconclusive('decoder yielded more segments than the input has bytes')
        for kind, s2, v in api.call(m, s, DEC_NEXT, [s.extra['dec']]):
            if kind != 'ret':
                done.append((s2, None, v)); continue
            if v.disc == 0: done.append((s2, acc, None))
            else: work.append((s2, acc + [read_mapping(m.idx, v.payload[1].f[0])]))
    return done


def new_decoder(m, st, text):
    """state gets extra['dec'] = &mut MappingsDecoder::new(text)"""
    outs = api.call(m, st, "MappingsDecoder::<'a>::new", [text])
    if len(outs) != 1 or outs[0][0] != 'ret': raise Inconclusive('MappingsDecoder::new did not return once')
    _, s, v = outs[0]
    s.extra['dec'] = Ref(Cell(v))
    return s


def segs_json(mdl, segs): return [seg_json(mdl, s) for s in segs]


# ------------------------------------------------------------------------------------------ round trip
def roundtrip(jid, shape, bits=5, maxgap=1, flavour='mir', columns=True):
    """encode_mappings(sorted symbolic mappings) -> decode with the real decoder: attribution preserved, re-encoding identical,
    alphabet / ASCII of the produced string (C11, C19)."""
    idx = api.load(flavour); m = api.machine(idx, loop_bound=40); J = Job(jid, m)
    m.hooks['from_utf8_unchecked'] = _ascii_hook(J)
    st = State()
    vals, segs = sym_mappings(idx, st, shape, bits, maxgap)
    inputs = segs
    mf = lambda mdl: {'family': 'roundtrip', 'columns': columns, 'mappings': segs_json(mdl, inputs)}
    enc = 'encode_mappings'
    for kind, s, v in api.call(m, st, enc, [Iter(list(vals))]):
        J.paths += 1
        if kind != 'ret':
            ok_, mdl = m.check(s.pc); J.fail('encode_mappings panics on a sorted in-range sequence: ' + repr(v), **mf(mdl)); continue
        text = as_strv(v)
        s.extra['text'] = text
        s = new_decoder(m, s, text)
        for s2, dsegs, pan in decode_all(m, J, s, text.len + 1):
            J.paths += 1
            if dsegs is None:
                ok_, mdl = m.check(s2.pc); J.fail('decode_mappings panics on the encoder\'s own output: ' + repr(pan), **mf(mdl)); continue
            J.see('decoded_%d' % len(dsegs))
            check_attr(J, m, s2, segs, dsegs, mf)
            # re-encode the decoded segments
            dvals = [mk_mapping(idx, l, c, o) for (l, c, o) in dsegs]
            for kind3, s3, v3 in api.call(m, s2, enc, [Iter(dvals)]):
                if kind3 != 'ret':
                    ok_, mdl = m.check(s3.pc); J.fail('re-encoding the decoded segments panics', **mf(mdl)); continue
                t2 = as_strv(v3); t1 = s3.extra['text']
                if t2.len != t1.len:
                    ok_, mdl = m.check(s3.pc); J.fail('encode(decode(s)) has another length than s', **mf(mdl)); continue
                J.prove(m, s3, z3.And([zbyte(x) == zbyte(y) for x, y in zip(t1.bytes(), t2.bytes())]) if t1.len else True,
                        'encode(decode(s)) != s', mf)
                J.see('reencoded')
    J.samples.append('shape=%s bits=%d maxgap=%d: decode(encode(M)) attributes every position as M; encode(decode(s)) == s; alphabet; ASCII' % (shape, bits, maxgap))
    return J.result(required_witnesses=['drain', 'reencoded'])


def as_strv(v):
    v = sv(v)
    if isinstance(v, StrV): return v
    raise Inconclusive('expected a string result, got %r' % (v,))


def check_attr(J, m, s, segs_in, segs_out, mf, lines_only=False):
    """attribution equality at every break point of either list (C12 / C03 style)"""
    pts = [(l, c) for (l, c, _) in segs_in] + [(l, c) for (l, c, _) in segs_out]
    def mf2(mdl):
        d = mf(mdl); d['decoded'] = segs_json(mdl, segs_out); return d
    for (l, c) in pts:
        a = attr_of(segs_in, l, c); b = attr_of(segs_out, l, c)
        J.prove(m, s, attr_equal(a, b), 'decoded segments attribute a position differently from the encoded input', mf2)
    # produced segments are strictly increasing and on lines >= 1 (C11)
    prev = None
    for (l, c, _) in segs_out:
        J.prove(m, s, z3.UGE(zz(l), 1), 'C11: decoded line < 1', mf2)
        if prev is not None:
            pl, pc_ = prev
            J.prove(m, s, z3.Or(z3.UGT(zz(l), zz(pl)), z3.And(zz(l) == zz(pl), z3.UGT(zz(c), zz(pc_)))), 'C11: decoded segments not strictly increasing', mf2)
        prev = (l, c)


# ------------------------------------------------------------------------------------------ lines-only encoder
def lines_only(jid, shape, bits=5, maxgap=2, flavour='mir'):
    idx = api.load(flavour); m = api.machine(idx, loop_bound=40); J = Job(jid, m)
    m.hooks['from_utf8_unchecked'] = _ascii_hook(J)
    st = State()
    vals, segs = sym_mappings(idx, st, shape, bits, maxgap)
    mf = lambda mdl: {'family': 'lines_only', 'mappings': segs_json(mdl, segs)}
    outs = api.call(m, st, 'create_encoder', [False])
    if len(outs) != 1: raise Inconclusive('create_encoder(false) forked')
    _, s0, box = outs[0]
    s0.extra['enc'] = box
    states = [s0]
    for i in range(len(vals)):
        nxt = []
        for s in states:
            for kind, s2, v in api.call(m, s, '<dyn MappingsEncoder as MappingsEncoder>::encode', [s.extra['enc'], Ref(Cell(vals[i]))]):
                if kind != 'ret':
                    ok_, mdl = m.check(s2.pc); J.fail('lines-only encode panics: ' + repr(v), **mf(mdl)); continue
                nxt.append(s2)
        states = nxt
    for s in states:
        for kind, s2, v in api.call(m, s, '<dyn MappingsEncoder as MappingsEncoder>::drain', [s.extra['enc']]):
            J.paths += 1
            if kind != 'ret':
                ok_, mdl = m.check(s2.pc); J.fail('lines-only drain panics', **mf(mdl)); continue
            text = as_strv(v)
            s2 = new_decoder(m, s2, text)
            for s3, dsegs, pan in decode_all(m, J, s2, text.len + 1):
                if dsegs is None:
                    ok_, mdl = m.check(s3.pc); J.fail('decoder panics on lines-only output', **mf(mdl)); continue
                # expected: first mapped segment of each line, column 0, no name - in the model's concrete line structure
                # (lines are symbolic; compare through attribution at column 0 and at the largest column of each line)
                def mf2(mdl, dsegs=dsegs):
                    d = mf(mdl); d['decoded'] = segs_json(mdl, dsegs); return d
                for (l, c, o) in dsegs:
                    J.prove(m, s3, zz(c) == 0, 'lines-only: decoded segment not at column 0', mf2)
                    if o is None: J.fail('lines-only: unmapped segment emitted', **mf2(m.check(s3.pc)[1]))
                    elif o[3] is not None: J.fail('lines-only: name emitted', **mf2(m.check(s3.pc)[1]))
                # every input line: the decoded segment for that line equals the first mapped input segment on that line
                for i, (l, c, o) in enumerate(segs):
                    first_mapped = None
                    # first mapped input segment on line l (ite over earlier segments)
                    exp_m, es, eol = z3.BoolVal(False), z3.BitVecVal(0, 32), z3.BitVecVal(0, 32)
                    for (l2, c2, o2) in reversed(segs):
                        if o2 is None: continue
                        hit = zz(l2) == zz(l)
                        exp_m = z3.If(hit, z3.BoolVal(True), exp_m); es = z3.If(hit, zz(o2[0]), es); eol = z3.If(hit, zz(o2[1]), eol)
                    got = attr_of(dsegs, l, z3.BitVecVal(0xFFFFFFFF, 32))
                    J.prove(m, s3, z3.And(got[0] == exp_m, z3.Implies(exp_m, z3.And(got[1] == es, got[2] == eol, got[3] == 0, z3.Not(got[4])))),
                            'lines-only: a line is not attributed to its first mapped segment (file, line, column 0, no name)', mf2)
                # and no decoded segment on a line without a mapped input
                for (l, c, o) in dsegs:
                    J.prove(m, s3, z3.Or([zz(l2) == zz(l) for (l2, _, o2) in segs if o2 is not None] or [z3.BoolVal(False)]),
                            'lines-only: a segment on a line without mapped input', mf2)
                J.see('lines_decoded_%d' % len(dsegs))
    J.samples.append('lines-only encoder, shape=%s: decode(output) == first mapped segment per line at column 0 without name' % (shape,))
    return J.result(required_witnesses=['drain'])


# ------------------------------------------------------------------------------------------ decoder vs format
def parse_skeleton(sk):
    """'1,4;5' with optional digit counts: tokens like '1' (one field, one digit each), '4:2111' (4 fields with 2,1,1,1 digits)"""
    toks = []
    for part in sk.replace(';', ' ; ').replace(',', ' , ').split():
        if part in ',;': toks.append(part)
        else:
            if ':' in part:
                n, ds = part.split(':'); ds = [int(x) for x in ds]
            else:
                n = part; ds = [1] * int(n)
            if len(ds) != int(n): raise ValueError(sk)
            toks.append(('seg', ds))
    return toks


def build_text(st, toks, tag='d'):
    """-> (StrV, fields) where fields = per segment list of per-field lists of 5-bit digit exprs; bytes are constrained
    through the independent base64 table"""
    bs, segs, n = [], [], 0
    for t in toks:
        if t == ',' or t == ';': bs.append(ord(t)); segs.append(t); continue
        fields = []
        for nd in t[1]:
            digs = []
            for j in range(nd):
                c = z3.BitVec('%s%d' % (tag, n), 8); n += 1
                v = spec_b64_value(c)
                cont = j < nd - 1
                st.pc.append(z3.And(v != 255, (v & 32) == (32 if cont else 0)))
                digs.append(v & 31); bs.append(c)
            fields.append(digs)
        segs.append(fields)
    return StrV(tuple(bs)), segs


def spec_decode(st, segs, assume_nonneg=True):
    """the source-map v3 semantics of the skeleton: list of expected segments (l, c, None|(s, ol, oc, name|None)) as 64-bit
    running values truncated to 32 bits; appends the 'non-negative running values' assumption"""
    run = [z3.BitVecVal(0, 64)] * 5
    line = 1
    out = []
    for t in segs:
        if t == ';':
            line += 1; run = [z3.BitVecVal(0, 64)] + run[1:]; continue
        if t == ',': continue
        vals = []
        for k, digs in enumerate(t):
            vlq = z3.BitVecVal(0, 64)
            for j, d in enumerate(digs):
                vlq = vlq | (z3.ZeroExt(56, d) << (5 * j))
            mag = z3.LShR(vlq, 1)
            delta = z3.If((vlq & 1) == 1, -mag, mag)
            if k < 5:
                run = run[:k] + [run[k] + delta] + run[k + 1:]
                if assume_nonneg:
                    st.pc.append(z3.And(run[k] >= 0, run[k] < (1 << 31)))
        nf = len(t)
        t32 = [z3.Extract(31, 0, x) for x in run]
        if nf == 1: out.append((line, t32[0], None))
        elif nf == 4: out.append((line, t32[0], (t32[1], t32[2], t32[3], None)))
        elif nf == 5: out.append((line, t32[0], (t32[1], t32[2], t32[3], t32[4])))
    return out


def decoder_format(jid, skeleton, flavour='mir'):
    idx = api.load(flavour); m = api.machine(idx, loop_bound=80); J = Job(jid, m)
    st = State()
    toks = parse_skeleton(skeleton)
    text, segs = build_text(st, toks)
    expected = spec_decode(st, segs)
    # original line starts at 1 in the crate's decoder state: the format's running original line starts at 0 and the
    # crate stores lines 1-based => expected original line = running + 1
    expected = [(l, c, None if o is None else (o[0], o[1] + 1, o[2], o[3])) for (l, c, o) in expected]
    mf = lambda mdl: {'family': 'decode', 'mappings': ''.join(chr(mval(mdl, zbyte(b))) for b in text.bytes())}
    ok_, _ = m.check(st.pc)
    if not ok_: raise Inconclusive('skeleton assumptions unsatisfiable: ' + skeleton)
    s0 = new_decoder(m, st, text)
    for s2, dsegs, pan in decode_all(m, J, s0, text.len + 1):
        J.paths += 1
        if dsegs is None:
            ok_, mdl = m.check(s2.pc); J.fail('decode_mappings panics on a well-formed string: ' + repr(pan), **mf(mdl)); continue
        def mf2(mdl, dsegs=dsegs):
            d = mf(mdl); d['decoded'] = segs_json(mdl, dsegs); d['expected'] = segs_json(mdl, expected); return d
        if len(dsegs) != len(expected):
            ok_, mdl = m.check(s2.pc); J.fail('decoder yields %d segments, the format defines %d' % (len(dsegs), len(expected)), **mf2(mdl)); continue
        conds = []
        for (l, c, o), (el, ec, eo) in zip(dsegs, expected):
            conds += [zz(l) == zz(el), zz(c) == zz(ec)]
            if (o is None) != (eo is None): conds.append(z3.BoolVal(False)); continue
            if o is not None:
                conds += [zz(o[0]) == eo[0], zz(o[1]) == eo[1], zz(o[2]) == eo[2]]
                if (o[3] is None) != (eo[3] is None): conds.append(z3.BoolVal(False))
                elif o[3] is not None: conds.append(zz(o[3]) == eo[3])
        J.prove(m, s2, z3.And(conds) if conds else True, 'decoder result differs from the source-map v3 semantics of the string', mf2)
        J.see('decoded')
    J.samples.append('skeleton %r (every digit symbolic, running values in [0,2^31)): decode_mappings == v3 semantics' % skeleton)
    return J.result(required_witnesses=['decoded'])


# ------------------------------------------------------------------------------------------ C17: decoder never panics
def decoder_step(jid, flavour='mir', maxlen_bits=31):
    """one byte from an arbitrary decoder state satisfying the invariant: no panic, invariant preserved.
    Invariant I(n): current_value_pos = 5*k, k <= n; current_data_pos <= n; generated_line <= n + 1  (n < 2^maxlen_bits bytes consumed).
    By induction over the bytes of the string this covers strings of every length < 2^maxlen_bits."""
    idx = api.load(flavour); m = api.machine(idx, loop_bound=8); J = Job(jid, m)
    st = State()
    c = z3.BitVec('byte', 8)
    n = z3.BitVec('n', 64)
    data = [z3.BitVec('cd%d' % i, 32) for i in range(5)]
    pos, val, vpos, gl = z3.BitVec('data_pos', 64), z3.BitVec('cur_val', 64), z3.BitVec('val_pos', 64), z3.BitVec('gen_line', 32)
    k = z3.BitVec('k', 64)
    st.pc += [z3.ULT(n, 1 << maxlen_bits), vpos == 5 * k, z3.ULE(k, n), z3.ULE(pos, n), z3.ULE(z3.ZeroExt(32, gl), n + 1), z3.UGE(gl, 1)]
    text = StrV((c,))
    it = Iter([Ref(Cell(IntV(c, 'u8')))])
    dec = idx.mk('MappingsDecoder', mappings_iter=it, current_data=Agg([IntV(d, 'u32') for d in data]), current_data_pos=IntV(pos, 'usize'),
                 current_value=IntV(val, 'i64'), current_value_pos=IntV(vpos, 'usize'), generated_line=IntV(gl, 'u32'))
    cell = Cell(dec)
    st.extra['dec'] = Ref(cell)
    small = [z3.ULE(n, 40), k == n, z3.ULE(pos, 8), val == 0, gl == 1] + [d == (1 if i == 2 else 0) for i, d in enumerate(data)]
    mf = lambda mdl: {'family': 'decoder_step', 'byte': mval(mdl, c), 'current_value_pos': mval(mdl, vpos), 'current_data_pos': mval(mdl, pos),
                      'current_value': mval(mdl, val), 'generated_line': mval(mdl, gl), 'current_data': [mval(mdl, d) for d in data]}
    for kind, s, v in api.call(m, st, DEC_NEXT, [st.extra['dec']]):
        J.paths += 1
        if kind != 'ret':
            J.fail_path(m, s, 'MappingsDecoder::next panics: ' + repr(v), mf, small); continue
        d = sv(s.extra['dec'])
        npos = d.f[idx.fld('MappingsDecoder', 'current_data_pos')]; nvpos = d.f[idx.fld('MappingsDecoder', 'current_value_pos')]
        ngl = d.f[idx.fld('MappingsDecoder', 'generated_line')]
        inv = z3.And(z3.Or(zi(nvpos) == 5 * (k + 1), zi(nvpos) == 5 * k, zi(nvpos) == 0), z3.ULE(zi(npos), n + 1), z3.ULE(z3.ZeroExt(32, zi(ngl)), n + 2), z3.UGE(zi(ngl), 1))
        J.prove(m, s, inv, 'decoder state invariant not preserved by one byte', mf, small)
        J.see('some' if v.disc == 1 else 'none')
    J.samples.append('for every byte value and every decoder state with value_pos=5k, k<=n, data_pos<=n, line<=n+1, n<2^%d: next() does not panic and re-establishes the invariant' % maxlen_bits)
    return J.result(required_witnesses=['some', 'none'])


def decoder_run(jid, skeleton, flavour='mir', free=False):
    """no panic on a class-shaped string; digits symbolic, no assumption on running values (wild deltas)"""
    idx = api.load(flavour); m = api.machine(idx, loop_bound=120); J = Job(jid, m)
    st = State()
    toks = parse_skeleton(skeleton)
    text, segs = build_text(st, toks)
    mf = lambda mdl: {'family': 'decode', 'mappings': ''.join(chr(mval(mdl, zbyte(b))) for b in text.bytes())}
    s0 = new_decoder(m, st, text)
    for s2, dsegs, pan in decode_all(m, J, s0, text.len + 1):
        J.paths += 1
        if dsegs is None:
            ok_, mdl = m.check(s2.pc); J.fail('decode_mappings panics: ' + repr(pan), **mf(mdl)); continue
        J.obligations += 1; J.discharged += 1
        J.see('returned')
    J.samples.append('skeleton %r, digits symbolic, deltas unconstrained: decode_mappings returns without panic (%s semantics)' % (skeleton, 'debug' if flavour == 'mir' else 'release'))
    return J.result(required_witnesses=['returned'])


def decoder_bytes(jid, length, flavour='mir'):
    """no panic on every string of `length` fully symbolic bytes (all 256 values per byte)"""
    idx = api.load(flavour); m = api.machine(idx, loop_bound=40); J = Job(jid, m)
    st = State()
    bs = [z3.BitVec('b%d' % i, 8) for i in range(length)]
    text = StrV(tuple(bs))
    mf = lambda mdl: {'family': 'decode_bytes', 'bytes': [mval(mdl, b) for b in bs]}
    s0 = new_decoder(m, st, text)
    for s2, dsegs, pan in decode_all(m, J, s0, length + 1):
        J.paths += 1
        if dsegs is None:
            ok_, mdl = m.check(s2.pc); J.fail('decode_mappings panics: ' + repr(pan), **mf(mdl)); continue
        J.obligations += 1; J.discharged += 1
        J.see('returned')
    J.samples.append('all byte strings of length %d: decode_mappings returns without panic' % length)
    return J.result(required_witnesses=['returned'])


def decoder_long_run(jid, slot, cont, flavour='mir'):
    digs = ['1'] * 5
    sk = '5:' + ''.join(digs)
    toks = [('seg', [cont + 1 if i == slot else 1 for i in range(5)])]
    idx = api.load(flavour); m = api.machine(idx, loop_bound=200); J = Job(jid, m)
    st = State()
    text, segs = build_text(st, toks)
    mf = lambda mdl: {'family': 'decode', 'mappings': ''.join(chr(mval(mdl, zbyte(b))) for b in text.bytes())}
    s0 = new_decoder(m, st, text)
    for s2, dsegs, pan in decode_all(m, J, s0, text.len + 1):
        J.paths += 1
        if dsegs is None:
            J.fail_path(m, s2, 'decode_mappings panics: ' + repr(pan), mf); continue
        J.obligations += 1; J.discharged += 1
        J.see('returned')
    J.samples.append('5-field segment whose field %d is spelled with %d continuation digits + 1 terminal digit, all digits symbolic: decode_mappings returns without panic (%s)' % (slot, cont, 'debug' if flavour == 'mir' else 'release'))
    return J.result(required_witnesses=['returned'])


def roundtrip_one_field(jid, field, bits=30, flavour='mir'):
    """two 5-field mappings on one line (field 0: on consecutive lines); the chosen field ranges over [0, 2^bits) in both
    (so its delta takes every magnitude and both signs), all other fields concrete"""
    idx = api.load(flavour); m = api.machine(idx, loop_bound=40); J = Job(jid, m)
    m.hooks['from_utf8_unchecked'] = _ascii_hook(J)
    st = State()
    lim = z3.BitVecVal(1 << bits, 32)
    x0, x1 = z3.BitVec('x0', 32), z3.BitVec('x1', 32)
    st.pc += [z3.ULT(x0, lim), z3.ULT(x1, lim)]
    def fields(i, x):
        base = [3 + 4 * i, 1, 2, 5, 1]            # col, src, oline, ocol, name
        fs = [IntV(v, 'u32') for v in base]
        fs[field] = IntV(x, 'u32')
        return fs
    f0, f1 = fields(0, x0), fields(1, x1)
    if field == 0: st.pc.append(z3.UGT(x1, x0))
    if field == 2: st.pc += [z3.UGE(x0, 1), z3.UGE(x1, 1)]
    segs = [(IntV(1, 'u32'), f0[0], (f0[1], f0[2], f0[3], f0[4])), (IntV(1, 'u32'), f1[0], (f1[1], f1[2], f1[3], f1[4]))]
    vals = [mk_mapping(idx, l, c, o) for (l, c, o) in segs]
    mf = lambda mdl: {'family': 'roundtrip', 'columns': True, 'mappings': segs_json(mdl, segs)}
    for kind, s, v in api.call(m, st, 'encode_mappings', [Iter(list(vals))]):
        J.paths += 1
        if kind != 'ret':
            J.fail_path(m, s, 'encode_mappings panics: ' + repr(v), mf); continue
        text = as_strv(v); s.extra['text'] = text
        s = new_decoder(m, s, text)
        for s2, dsegs, pan in decode_all(m, J, s, text.len + 1):
            if dsegs is None:
                J.fail_path(m, s2, 'decode panics on encoder output: ' + repr(pan), mf); continue
            check_attr(J, m, s2, segs, dsegs, mf)
            J.see('decoded_%d' % len(dsegs))
    J.samples.append('field %d of two consecutive 5-field mappings ranges over [0,2^%d) (delta of every magnitude, both signs); other fields fixed: decode(encode(M)) attributes as M' % (field, bits))
    return J.result(required_witnesses=['drain'])


def tv_codec(jid, n=300, seed=0):
    """translator validation (not a deciding step): the interpreter runs the MIR of encode_mappings / the decoder CONCRETELY on
    pseudo-random sorted mapping sequences and on the repository's golden mapping strings; the native crate must agree."""
    import random, subprocess, tempfile, re as _re
    rnd = random.Random(1000 + seed)
    idx = api.load('mir'); m = api.machine(idx, loop_bound=400); J = Job(jid, m)
    items = []
    for _ in range(n):
        k = rnd.randint(0, 6); line, col = 1, 0; ms = []
        for i in range(k):
            if rnd.random() < 0.3: line += rnd.randint(1, 3); col = rnd.choice([0, rnd.randint(0, 40)])
            else: col += rnd.randint(1, 2000 if rnd.random() < 0.2 else 20)
            kind = rnd.choice([1, 4, 4, 5])
            big = lambda: rnd.choice([rnd.randint(0, 5), rnd.randint(0, 70), rnd.randint(0, 1 << 20)])
            mm = [line, col] + ([] if kind == 1 else [big(), max(1, big()), big()] + ([big()] if kind == 5 else []))
            ms.append(mm)
        items.append({'family': 'roundtrip', 'mappings': ms})
    # golden strings from the repository's own tests
    golden = set()
    for fn in sorted(os.listdir(os.path.join(api.REPO, 'src'))):
        for mt in _re.finditer(r'"mappings":\s*"([A-Za-z0-9+/,;]*)"|mappings\(\),\s*"([A-Za-z0-9+/,;]*)"', open(os.path.join(api.REPO, 'src', fn)).read()):
            golden.add(mt.group(1) or mt.group(2))
    for g in sorted(golden)[:60]: items.append({'family': 'decode', 'mappings': g})
    with tempfile.NamedTemporaryFile('w', suffix='.json', delete=False) as f:
        json.dump({'family': 'batch', 'items': items}, f); path = f.name
    binp = os.environ.get('VERIF_REPLAY_DEBUG') or os.path.join(api.VERIF, '.cache', 'replay-target-debug', 'debug', 'verif_replay')
    r = subprocess.run([binp, path], capture_output=True, text=True, timeout=120)
    os.unlink(path)
    native = json.loads(r.stdout.strip().split('\n')[-1])['results']
    def mp(a):
        return mk_mapping(idx, IntV(a[0], 'u32'), IntV(a[1], 'u32'), None if len(a) < 5 else (IntV(a[2], 'u32'), IntV(a[3], 'u32'), IntV(a[4], 'u32'), IntV(a[5], 'u32') if len(a) > 5 else None))
    def dec(text):
        st = new_decoder(m, State(), text)
        outs = decode_all(m, J, st, text.len + 2)
        if len(outs) != 1: raise Inconclusive('concrete decode forked')
        _, segs, pan = outs[0]
        if segs is None: return None
        return [[conc_int(x) for x in ([l, c] + ([] if o is None else [o[0], o[1], o[2]] + ([o[3]] if o[3] is not None else [])))] for (l, c, o) in segs]
    bad = 0
    for it, nat in zip(items, native):
        if it['family'] == 'roundtrip':
            outs = api.call(m, State(), 'encode_mappings', [Iter([mp(a) for a in it['mappings']])])
            if len(outs) != 1 or outs[0][0] != 'ret': raise Inconclusive('concrete encode did not return once')
            text = as_strv(outs[0][2])
            mine = {'encoded': text.conc(), 'decoded': dec(text)}
            if nat.get('panicked') or mine['encoded'] != nat['encoded'] or mine['decoded'] != nat['decoded']:
                bad += 1; J.notes.append('translator disagreement on %r: interpreter %r native %r' % (it, mine, nat))
        else:
            mine = dec(mkstr(it['mappings']))
            if nat.get('panicked') or mine != nat['decoded']:
                bad += 1; J.notes.append('translator disagreement on %r: interpreter %r native %r' % (it, mine, nat))
        J.paths += 1
    res = J.result(status='pass' if bad == 0 else 'inconclusive')
    res['tv'] = len(items)
    if bad: res['reason'] = 'translator validation failed on %d of %d vectors: %s' % (bad, len(items), '; '.join(J.notes[:2])[:1500])
    res['samples'] = ['translator validation: %d concrete vectors (random sorted sequences + %d golden mapping strings of the repository) agree between interpreter and native crate' % (len(items), len(golden))]
    return res

"""C15: SourceMap JSON serialisation. The crate's side of the pipeline is interpreted from MIR - SourceMap::to_json / to_writer /
from_json / from_slice / from_reader, the derive-generated Serialize impl of SourceMap (field set, renames, skip predicates,
is_all_empty), the derive-generated Deserialize impl of RawSourceMap (key recognition, duplicates, missing members, ignored
members, visit_seq) and TryFrom<RawSourceMap>; simd-json is the contract of msx/jsonmodel.py. Symbolic: which optional fields a
value has (Option discriminants), which members a document has, which array entries are null, the ORDER of the members."""
import itertools, random, subprocess, tempfile
import z3
from .common import *
from msx import jsonmodel
from msx.textmodel import WriterV
from msx.contracts import as_str
from lib import json_oracle as JO

OPT = JO.OPT


def _arcstr(s): return Ref(Cell(mkstr(s), tag='heap'))
def _arcvec(xs): return Ref(Cell(vec([mkstr(x) for x in xs]), tag='heap'))


def build_map(idx, st, spec, tag='m'):
    """SourceMap value; an optional field given as {'sym': text} gets a SYMBOLIC discriminant"""
    syms = {}
    def opt(k):
        v = spec.get(k)
        if v is None: return none()
        if isinstance(v, dict):
            d = z3.BitVec('%s_has_%s' % (tag, k), 64)
            st.pc.append(z3.Or(d == 0, d == 1)); syms[k] = (d, v['sym'])
            return Enum('Option', d, {1: Agg([_arcstr(v['sym'])])})
        return some(_arcstr(v))
    v = idx.mk('SourceMap', version=IntV(3, 'u8'), file=opt('file'), sources=_arcvec(spec.get('sources', [])), sources_content=_arcvec(spec.get('sourcesContent', [])),
               names=_arcvec(spec.get('names', [])), mappings=_arcstr(spec.get('mappings', '')), source_root=opt('sourceRoot'), debug_id=opt('debugId'))
    return v, syms


def fields_of(idx, v):
    """a (concrete-shaped) SourceMap value -> spec dict"""
    sm = sv(v)
    def s(x): return bytes(as_str(x).bytes()).decode('utf-8')
    def o(x):
        x = sv(x)
        if not isinstance(x.disc, int): raise Inconclusive('symbolic Option in a parsed SourceMap')
        return None if x.disc == 0 else s(x.payload[1].f[0])
    def l(x): return [s(e) for e in sv(x).f]
    g = lambda f: sm.f[idx.fld('SourceMap', f)]
    return {'mappings': s(g('mappings')), 'sources': l(g('sources')), 'sourcesContent': l(g('sources_content')), 'names': l(g('names')),
            'file': o(g('file')), 'sourceRoot': o(g('source_root')), 'debugId': o(g('debug_id')), 'version': conc_int(g('version'))}


def _back(idx, kind, v):
    if kind != 'ret': return {'panicked': repr(v)[:200]}
    r = sv(v)
    if r.disc != 0: return {'err': repr(sv(r.payload[1].f[0]))[:200]}
    return {'ok': fields_of(idx, r.payload[0].f[0])}


def _items(idx):
    f = lambda n: api.find_item(idx, '>::' + n, contains='source::<impl at src/source.rs')
    names = {}
    for n in ('to_json', 'to_writer', 'from_json', 'from_slice', 'from_reader'):
        c = [k for k, v in idx.items.items() if v.kind == 'fn' and k.endswith('>::' + n) and k.startswith('source::<impl at src/source.rs') and 'SourceMap' in (v.header or '') and 'RawSourceMap, ' not in (v.header or '').split('->')[-1]]
        c = [k for k in c if '-> std::result::Result<RawSourceMap' not in idx.items[k].header]
        if len(c) != 1: raise Inconclusive('item SourceMap::%s: %d candidates' % (n, len(c)))
        names[n] = c[0]
    return names


def _assignments(m, st, syms):
    """all feasible assignments of the symbolic discriminants under the path condition"""
    ks = sorted(syms)
    out = []
    for bits in itertools.product((0, 1), repeat=len(ks)):
        cond = z3.And([syms[k][0] == b for k, b in zip(ks, bits)]) if ks else z3.BoolVal(True)
        if not ks or m.feasible(st, cond): out.append(dict(zip(ks, bits)))
    return out


def _conc_spec(spec, syms, asg):
    s = {k: v for k, v in spec.items()}
    for k, (d, text) in syms.items(): s[k] = text if asg[k] else None
    return JO.norm(s)


def roundtrip_job(jid, spec, flavour='mir'):
    idx = api.load(flavour); m = api.machine(idx); J = Job(jid, m)
    it = _items(idx)
    st = State()
    sm, syms = build_map(idx, st, spec)
    st.extra['sm'] = sm
    def ok_(): J.obligations += 1; J.discharged += 1
    def judge(vs, spec_c):
        if not vs: ok_()
        for v in vs[:2]: J.fail('C15: ' + v, family='json', map=spec_c)
    for kind, s2, v in api.call(m, st, it['to_json'], [copy_val(sm)]):
        J.paths += 1
        for asg in _assignments(m, s2, syms):
            spec_c = _conc_spec(spec, syms, asg)
            if kind != 'ret': J.fail('C15/C17: to_json panics: %r' % (v,), family='json', map=spec_c); continue
            r = sv(v)
            if r.disc != 0: J.fail('C15: to_json returns Err for a SourceMap value', family='json', map=spec_c); continue
            text = bytes(as_str(r.payload[0].f[0]).bytes()).decode('utf-8')
            judge(JO.judge_text(spec_c, text), spec_c)
            J.see('optional_present', any(asg.values())); J.see('optional_absent', not all(asg.values()) or not asg)
            J.see('contents_skipped', all(c == '' for c in spec_c['sourcesContent'])); J.see('contents_kept', any(c != '' for c in spec_c['sourcesContent']))
            s3 = s2.clone()
            if syms: s3.pc.append(z3.And([syms[k][0] == b for k, b in asg.items()])); s3.model = None
            # to_writer: byte-identical
            wr = Ref(Cell(WriterV(None))); s3.extra['w'] = wr
            sw = s3.clone()
            for k2, s4, v2 in api.call(m, sw, it['to_writer'] + '::<WriterV>', [copy_val(sw.extra['sm']), sw.extra['w']]):
                J.paths += 1
                if k2 != 'ret' or sv(v2).disc != 0: judge(['to_writer fails / panics on a value to_json accepts: %r' % (v2,)], spec_c); continue
                w = sv(s4.extra['w'])
                judge([] if bytes(w.buf) == text.encode('utf-8') else ['to_writer wrote %r, to_json returned %r' % (bytes(w.buf)[:200], text[:200])], spec_c)
            # and back, three entry points
            for via, arg in (('from_json', mkstr(text)), ('from_slice', Ref(Cell(Agg([IntV(b, 'u8') for b in text.encode('utf-8')])))), ('from_reader', Ref(Cell(Agg([IntV(b, 'u8') for b in text.encode('utf-8')]))))):
                for k2, s4, v2 in api.call(m, s3.clone(), it[via] + ('::<&[u8]>' if via == 'from_reader' else ''), [arg]):
                    J.paths += 1
                    judge(JO.judge_back(spec_c, _back(idx, k2, v2), via), spec_c)
                    J.see('parsed_back')
    need = ['parsed_back'] + (['optional_present', 'optional_absent'] if syms else [])
    return J.result(required_witnesses=need)


# ------------------------------------------------------------------------------------------------ documents
def _node(st, x, path, flags):
    """python JSON-like value -> abstract node; {'opt': v} = 'null or v' decided by a symbolic Boolean"""
    if isinstance(x, dict) and set(x) == {'opt'}:
        b = z3.Bool('null_' + path); flags[path] = b
        return ('opt', b, _node(st, x['opt'], path + '.v', flags))
    if isinstance(x, dict) and set(x) == {'any'}:
        sel = z3.BitVec('type_' + path, 8); flags[path] = sel
        return ('any', sel, [_node(st, e, '%s|%d' % (path, i), flags) for i, e in enumerate(x['any'])])
    if x is None: return ('null',)
    if isinstance(x, bool): return ('bool', x)
    if isinstance(x, (int, float)): return ('num', x)
    if isinstance(x, str): return ('str', x)
    if isinstance(x, list): return ('arr', [_node(st, e, '%s[%d]' % (path, i), flags) for i, e in enumerate(x)])
    if isinstance(x, dict): return ('obj', [(k, _node(st, v, path + '.' + k, flags)) for k, v in x.items()])
    raise ValueError(x)


def _conc_node(mdl, n):
    if n[0] == 'any':
        k = mval(mdl, n[1]); return _conc_node(mdl, n[2][k if k < len(n[2]) - 1 else len(n[2]) - 1])
    if n[0] == 'opt': return None if mval(mdl, n[1]) else _conc_node(mdl, n[2])
    if n[0] == 'null': return None
    if n[0] in ('bool', 'num', 'str'): return n[1]
    if n[0] == 'arr': return [_conc_node(mdl, e) for e in n[1]]
    return {k: _conc_node(mdl, v) for k, v in n[1]}


def document_job(jid, members, sym_order=True, flavour='mir'):
    """members: list of (key, value, presence) with presence True | '?' (symbolic); values may contain {'opt': v}.
    The member ORDER is symbolic (every permutation) when sym_order."""
    import json as _json
    idx = api.load(flavour); m = api.machine(idx); J = Job(jid, m)
    it = _items(idx)
    st = State(); flags = {}
    mem = []
    for i, (k, v, pres) in enumerate(members):
        p = z3.Bool('has_%d_%s' % (i, k)) if pres == '?' else True
        mem.append((k, _node(st, v, '%d_%s' % (i, k), flags), p))
    order = [z3.BitVec('ord_%d' % i, 8) for i in range(len(mem))] if sym_order else None
    st.extra['json_docs'] = [{'node': ('obj', mem), 'order': order}]
    marker = jsonmodel.MARK + b'0'
    def text_of(s2, mdl):
        consumed = list(s2.extra.get('json_order', []))
        rest = [i for i in range(len(mem)) if i not in consumed and (mem[i][2] is True or mval(mdl, mem[i][2]))]
        parts = []
        for i in consumed + rest:
            parts.append(_json.dumps(mem[i][0]) + ':' + _json.dumps(_conc_node(mdl, mem[i][1]), separators=(',', ':')))
        return '{' + ','.join(parts) + '}'
    for via, arg in (('from_json', mkstr(marker)), ('from_slice', Ref(Cell(Agg([IntV(b, 'u8') for b in marker])))), ('from_reader', Ref(Cell(Agg([IntV(b, 'u8') for b in marker]))))):
        for kind, s2, v in api.call(m, st.clone(), it[via] + ('::<&[u8]>' if via == 'from_reader' else ''), [arg]):
            J.paths += 1
            mdl = J.model(m, s2.pc)
            if mdl is None: raise Inconclusive('no model of a completed path')
            text = text_of(s2, mdl)
            back = _back(idx, kind, v)
            vs = JO.judge_doc(text, back, via)
            J.obligations += 1
            if not vs: J.discharged += 1
            for x in vs[:2]: J.fail('C15: ' + x, family='jsondoc', text=text); J.obligations -= 1
            exp = JO.expected_doc(text)[0]
            J.see('accepted', 'ok' in back); J.see('rejected', 'err' in back)
            if 'ok' in back:
                J.see('null_entry_read', any(e is None for k_, vv in JO.strict_pairs(text) if isinstance(vv, list) for e in vv))
                ks = [k_ for k_, _ in JO.strict_pairs(text)]
                J.see('reordered', ks != [k_ for k_, _, _ in members if k_ in ks])
    return J.result(required_witnesses=['accepted'])


# ------------------------------------------------------------------------------------------------ translator validation
NASTY = ['', 'a', 'a.js', 'x"y', 'back\\slash', 'tab\there', 'nl\nx', '\u0001\u001f', '  ', '\U0001F600', 'é€', '/', '\u007f', 'null', '\\u0041', '퟿']


def tv_json(jid, n=60, seed=0):
    """translator validation of the simd-json contract (not a deciding step): the interpreter runs CONCRETELY on pseudo-random
    SourceMap values (strings with quotes, backslashes, control characters, U+2028/9, astral characters) and documents (nulls,
    missing members, wrong types, syntax errors, array form); the native crate with the real simd-json must agree - same JSON
    value with the same member order, same parsed fields, same accept/reject verdict."""
    import json as _json
    rnd = random.Random(4100 + seed)
    idx = api.load('mir'); m = api.machine(idx); J = Job(jid, m)
    it = _items(idx)
    pick = lambda: rnd.choice(NASTY) + (rnd.choice(NASTY) if rnd.random() < 0.3 else '')
    items = []
    for _ in range(n):
        k = rnd.randint(0, 3)
        spec = {'mappings': rnd.choice(['', 'AAAA', 'AAAA;;CAAC,E']), 'sources': [pick() for _ in range(k)], 'names': [pick() for _ in range(rnd.randint(0, 2))],
                'sourcesContent': rnd.choice([[], [''] * k, [pick() for _ in range(k)], [pick() for _ in range(max(0, k - 1))]]),
                'file': rnd.choice([None, pick()]), 'sourceRoot': rnd.choice([None, pick()]), 'debugId': rnd.choice([None, pick()])}
        items.append({'family': 'json', 'map': JO.norm(spec)})
    docs = ['{"mappings":"A"}', '{}', '[]', 'null', '', '{"mappings":null}', '{"mappings":"A","mappings":"B"}', '{"mappings":"A","sources":null,"names":[null,"n"],"sourcesContent":[null]}',
            '{"version":"x","mappings":"A"}', '{"mappings":1}', '{"mappings":"A","sources":"a"}', '{"mappings":"A","sources":[1]}', '{"mappings":"A",}', '{"mappings":"A"} x', ' {"mappings" : "A" } ',
            '[null,null,null,null,null,"AA",null]', '["f",["s"],"r",["c"],["n"],"AA","d"]', '["f"]', '{"mappings":"A","x":{"y":[1,{"z":null}]},"file":null}', '{"mappings":"\\u0041\\n\\ud83d\\ude00"}',
            '{"mappings":"A","file":"f","file":"g"}', '{"debugId":"d","sourceRoot":"r","names":[],"sourcesContent":["c"],"sources":["s"],"file":"f","mappings":"M","version":3}', '{"mappings":"A","sources":[null,null]}',
            '{"mappings":"A","sourceRoot":5}', '{"mappings":"\\x"}', '{"mappings":"A","names":{}}', 'NaN', '{"mappings":"A","version":NaN}', '[1]', '"s"']
    for d in docs: items.append({'family': 'jsondoc', 'text': d})
    with tempfile.NamedTemporaryFile('w', suffix='.json', delete=False) as f:
        _json.dump({'family': 'batch', 'items': items}, f); path = f.name
    binp = os.environ.get('VERIF_REPLAY_DEBUG') or os.path.join(api.VERIF, '.cache', 'replay-target-debug', 'debug', 'verif_replay')
    r = subprocess.run([binp, path], capture_output=True, text=True, timeout=120)
    os.unlink(path)
    try: native = _json.loads(r.stdout.strip().split('\n')[-1])['results']
    except Exception: raise Inconclusive('native replay produced no result: ' + r.stderr[-500:])
    bad = 0
    def one(name, arg):
        outs = api.call(m, State(), name, [arg])
        if len(outs) != 1: raise Inconclusive('concrete run forked')
        return outs[0]
    def same_back(mine, nat):
        if 'ok' in mine and 'ok' in nat: return JO.norm(mine['ok']) == JO.norm(nat['ok'])
        return ('err' in mine) == ('err' in nat) and 'panicked' not in nat
    for itx, nat in zip(items, native):
        J.paths += 1
        why = None
        if itx['family'] == 'json':
            st = State(); sm, _ = build_map(idx, st, itx['map'])
            kind, s2, v = api.call(m, st, it['to_json'], [sm])[0]
            if kind != 'ret' or sv(v).disc != 0 or 'to_json' not in nat: why = 'to_json verdict'
            else:
                text = bytes(as_str(sv(v).payload[0].f[0]).bytes()).decode('utf-8')
                try:
                    if JO.strict_pairs(text) != JO.strict_pairs(nat['to_json']): why = 'to_json value: contract %r native %r' % (text, nat['to_json'])
                except ValueError as e: why = 'native to_json output not strict JSON: %r' % nat['to_json']
                if why is None and nat.get('to_writer') != nat['to_json']: why = 'native to_writer differs from to_json'
                if why is None:
                    kind, s3, v3 = one(it['from_json'], mkstr(text))
                    if not same_back(_back(idx, kind, v3), nat['from_json']): why = 'from_json: contract %r native %r' % (_back(idx, kind, v3), nat['from_json'])
        else:
            for via, arg in (('from_json', mkstr(itx['text'])), ('from_reader', Ref(Cell(Agg([IntV(b, 'u8') for b in itx['text'].encode('utf-8')]))))):
                kind, s3, v3 = one(it[via] + ('::<&[u8]>' if via == 'from_reader' else ''), arg)
                mine = _back(idx, kind, v3)
                if not same_back(mine, nat[via]): why = '%s(%r): contract %r native %r' % (via, itx['text'], mine, nat[via])
        if why: bad += 1; J.notes.append('translator disagreement: ' + why[:600])
    res = J.result(status='pass' if bad == 0 else 'inconclusive')
    res['tv'] = len(items)
    if bad: res['reason'] = 'translator validation failed on %d of %d vectors: %s' % (bad, len(items), '; '.join(J.notes[:2])[:1500])
    res['samples'] = ['translator validation of the simd-json contract: %d values and %d documents agree between interpreter+contract and the native crate with the real simd-json' % (n, len(docs))]
    return res

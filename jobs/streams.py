"""Engine S, stages S2-S4: source trees (leaves, ConcatSource, ReplaceSource, CachedSource) interpreted from MIR on the text model.
A job builds a tree with symbolic text bytes, runs source(), the four chunk streams and map() on it, and - on every
path - hands the observations (which the path condition determines completely, as the job verifies) to lib/oracles.py."""
import itertools, json
import z3
from .common import *
from lib import oracles

ALPHA = {'q': b'a;} \n', 't': b'a;{} \t\n', 'n': b'a\n', 'w': b'ab;\n '}


class Sym:
    """symbolic text pieces of one job"""

    def __init__(self, st, alphabet):
        self.st, self.alpha, self.n = st, alphabet, 0
        self.vars = []

    def text(self, spec):
        """spec: str with '?' marking a symbolic byte (any letter of the alphabet), other characters concrete"""
        bs = []
        for ch in spec.encode('utf-8') if isinstance(spec, str) else spec:
            if ch == ord('?') or ch == ord('!'):
                v = z3.BitVec('t%d' % self.n, 8); self.n += 1
                alpha = self.alpha if ch == ord('?') else b'a\n'
                self.st.pc.append(z3.Or([v == z3.BitVecVal(a, 8) for a in alpha]))
                self.vars.append(v); bs.append(v)
            else: bs.append(ch)
        return StrV(tuple(bs))


def opt_rope_text(v):
    if v.disc == 0: return None
    r = v.payload[1].f[0]
    if is_real_rope(r): return as_text(r)
    return r.flat() if isinstance(r, RopeV) else r


def is_real_rope(x):
    x = sv(x)
    return isinstance(x, Agg) and len(x.f) == 1 and isinstance(sv(x.f[0]), Enum) and sv(x.f[0]).ty == 'Repr'


def recorder():
    return [Ref(Cell(External(n))) for n in ('chunk', 'source', 'name')]


def map_options(idx, columns, final):
    return Ref(Cell(idx.mk('MapOptions', columns=columns, final_source=final)))


# ------------------------------------------------------------------------------------------ tree construction
def build(idx, sym, spec, m=None, top=True):
    """spec -> (machine value, spec with StrV texts). kinds: orig(text,name) raw(text) rawstr(text) rawbuf(text)
    concat(children) boxed(inner) replace(inner, replacements[{start,end,content,name,enforce}]) cached(inner)"""
    k = spec['kind']
    out = dict(spec)
    if '_text' in spec:
        _t = spec['_text']
        class _S:                      # rebuilding an equivalent tree over the SAME symbolic texts
            st = sym.st; n = 0
            def text(self, _): return _t
        sym = _S()
    if k == 'orig':
        t = sym.text(spec['text']); out['_text'] = t
        v = idx.mk('OriginalSource', value=t, name=mkstr(spec['name']))
    elif k == 'rawstr':
        t = sym.text(spec['text']); out['_text'] = t
        v = Agg([Enum('Cow', 1, {1: Agg([t])})], 'RawStringSource')
    elif k == 'raw':
        if 'bytes' in spec:
            t = StrV(tuple(spec['bytes'])); out['_text'] = t
            bi = idx.enums['RawValue'].index('Buffer')
            v = idx.mk('RawSource', value=Enum('RawValue', bi, {bi: Agg([vec([IntV(b, 'u8') for b in t.bytes()])])}), value_as_string=Agg([none()], 'OnceCell'))
            return v, out
        t = sym.text(spec['text']); out['_text'] = t
        v = idx.mk('RawSource', value=Enum('RawValue', idx.enums['RawValue'].index('String'), {idx.enums['RawValue'].index('String'): Agg([Enum('Cow', 1, {1: Agg([t])})])}),
                   value_as_string=Agg([none()], 'OnceCell'))
    elif k == 'rawbuf':
        t = StrV(tuple(spec['bytes'])) if 'bytes' in spec else sym.text(spec['text']); out['_text'] = t
        v = idx.mk('RawBufferSource', value=vec([IntV(b, 'u8') for b in t.bytes()]), value_as_string=Agg([none()], 'OnceCell'))
    elif k == 'concat':
        ch = [build(idx, sym, c, m, False) for c in spec['children']]
        out['children'] = [c[1] for c in ch]
        kids = vec([Ref(Cell(c[0], tag='heap')) for c in ch])
        if m is not None and idx.structs.get('ConcatSource') != ['children']:
            # the struct has grown further fields (caches ...): take them from the crate's own Default impl
            outs = api.call(m, sym.st, '<ConcatSource as Default>::default', [])
            if len(outs) != 1 or outs[0][0] != 'ret' or outs[0][1] is not sym.st: raise Inconclusive('ConcatSource::default() did not return exactly once')
            v = sv(outs[0][2]); v.f[idx.fld('ConcatSource', 'children')] = kids
        else:
            v = idx.mk('ConcatSource', children=kids)
    elif k == 'concat_add':
        # built by the crate's own API: ConcatSource::default() + add(child) for every child (typed nested ConcatSources are
        # flattened by add); 'then': {child index: [observers called right after that add]} (mutation after observation)
        ch = [build(idx, sym, c, m, False) for c in spec['children']]
        out['children'] = [c[1] for c in ch]
        def one(name, args):
            outs = api.call(m, sym.st, name, args)
            if len(outs) != 1 or outs[0][0] != 'ret' or outs[0][1] is not sym.st: raise Inconclusive('construction call %s did not return exactly once' % name)
            return outs[0][2]
        obj = Ref(Cell(one('<ConcatSource as Default>::default', [])))
        for i, (cv, cs) in enumerate(ch):
            one('ConcatSource::add::<%s>' % type_name(spec['children'][i]), [obj, cv])
            for h in (spec.get('then') or {}).get(str(i), []):
                if h == 'hash':
                    from msx.textmodel import HasherV
                    one('<ConcatSource as Hash>::hash::<HasherV>', [obj, Ref(Cell(HasherV()))])
                elif h == 'map': one('<ConcatSource as Source>::map', [obj, map_options(idx, True, True)])
                else: one('<ConcatSource as Source>::%s' % h, [obj])
        v = deref(obj)
    elif k == 'sms':
        t = sym.text(spec['text']); out['_text'] = t
        mp = spec['map']
        def arcvec(xs): return Ref(Cell(vec([mkstr(x) for x in xs]), tag='heap'))
        mt = mapping_text(sym, spec['text'], mp, out, '_mappings')
        def smap(mt, mp):
            root = mp.get('sourceRoot')
            return idx.mk('SourceMap', version=IntV(3, 'u8'), file=none(), sources=arcvec(mp.get('sources', [])), sources_content=arcvec(mp.get('sourcesContent', [])),
                          names=arcvec(mp.get('names', [])), mappings=Ref(Cell(mt, tag='heap')), source_root=(none() if root is None else some(Ref(Cell(mkstr(root), tag='heap')))), debug_id=(none() if mp.get('debugId') is None else some(Ref(Cell(mkstr(mp['debugId']), tag='heap')))))
        inner_map = none()
        if spec.get('inner_map') is not None:
            imt = mapping_text(sym, spec.get('original_source') or '', spec['inner_map'], out, '_inner_mappings')
            inner_map = some(smap(imt, spec['inner_map']))
        v = idx.mk('SourceMapSource', value=t, name=mkstr(spec.get('name', 'x.js')), source_map=smap(mt, mp),
                   original_source=(none() if spec.get('original_source') is None else some(mkstr(spec['original_source']))),
                   inner_source_map=inner_map, remove_original_source=bool(spec.get('remove_original_source', False)))
    elif k == 'cached':
        inner, ispec = build(idx, sym, spec['inner'], m, False); out['inner'] = ispec
        from msx.contracts import DashMapV
        v = idx.mk('CachedSource', inner=Ref(Cell(inner, tag='heap')), cached_hash=Ref(Cell(Agg([none()], 'OnceCell'), tag='heap')), cached_maps=Ref(Cell(DashMapV(), tag='heap')))
    elif k == 'boxed':
        inner, ispec = build(idx, sym, spec['inner'], m, False); out['inner'] = ispec
        return Ref(Cell(inner, tag='heap')), out
    elif k == 'replace':
        inner, ispec = build(idx, sym, spec['inner'], m, False); out['inner'] = ispec
        # the object itself is built by the crate's own constructor and replace calls (see prepare())
        out['_pending'] = ('replace', inner)
        reps = []
        n = text_len(ispec)
        for i, r in enumerate(spec['replacements']):
            rr = dict(r)
            for key in ('start', 'end'):
                if '_' + key in r: rr['_' + key] = r['_' + key]; continue      # equivalent tree over the SAME symbolic range
                if r[key] == 'S': rr['_' + key] = rr['_start']
                elif r[key] == '?':
                    v = z3.BitVec('r%d_%s_%d' % (sym.n, key, i), 32); sym.n += 1
                    sym.st.pc.append(z3.ULE(v, n + 1))
                    rr['_' + key] = v
                else: rr['_' + key] = r[key]
            sym.st.pc.append(z3.ULE(zz(rr['_start']), zz(rr['_end'])))
            reps.append(rr)
        out['replacements'] = reps
        if not top:
            # nested ReplaceSource: built right here through the crate's API (these calls do not branch)
            ity = type_of(spec['inner'])
            def one(name, args):
                outs = api.call(m, sym.st, name, args)
                if len(outs) != 1 or outs[0][0] != 'ret' or outs[0][1] is not sym.st: raise Inconclusive('construction call %s did not return exactly once' % name)
                return outs[0][2]
            obj = Ref(Cell(one('ReplaceSource::<%s>::new' % ity, [inner])))
            for r in reps:
                one('ReplaceSource::<%s>::replace_with_enforce' % ity, [obj, IntV(r['_start'], 'u32'), IntV(r['_end'], 'u32'), mkstr(r['content']),
                                                                      none() if r.get('name') is None else some(mkstr(r['name'])), Enum('ReplacementEnforce', r.get('enforce', 1), {})])
                for h in r.get('then', []):        # observers between the mutating calls
                    if h == 'hash':
                        from msx.textmodel import HasherV
                        one('<ReplaceSource<%s> as Hash>::hash::<HasherV>' % ity, [obj, Ref(Cell(HasherV()))])
                    else:
                        one('<ReplaceSource<%s> as Source>::%s' % (ity, h), [obj])
            return deref(obj), out
        return None, out
    else:
        raise Inconclusive('tree kind ' + k)
    return v, out


def text_len(spec):
    if '_text' in spec: return spec['_text'].len
    if 'children' in spec: return sum(text_len(c) for c in spec['children'])
    if spec['kind'] == 'replace': return text_len(spec['inner']) + sum(len(r['content']) for r in spec['replacements'])
    if 'inner' in spec: return text_len(spec['inner'])
    return 0


def prepare(m, J, st, spec, mf):
    """objects that are built by running the crate's own API (ReplaceSource::new + replace_with_enforce ...): returns the
    list of states (the calls may fork on symbolic positions) with extra['root'] set"""
    idx = m.idx
    if spec['kind'] != 'replace': return [st]
    _, inner = spec['_pending']
    ity = type_of(spec['inner'])
    outs = api.call(m, st, 'ReplaceSource::<%s>::new' % ity, [inner])
    states = []
    for kind, s, v in outs:
        if kind != 'ret': J.fail_path(m, s, 'ReplaceSource::new panics', mf); continue
        s.extra['root'] = Ref(Cell(v)); states.append(s)
    for r in spec['replacements']:
        nxt = []
        for s in states:
            enf = Enum('ReplacementEnforce', r.get('enforce', 1), {})
            nm = none() if r.get('name') is None else some(mkstr(r['name']))
            args = [s.extra['root'], IntV(r['_start'], 'u32'), IntV(r['_end'], 'u32'), mkstr(r['content']), nm, enf]
            for kind, s2, v in api.call(m, s, 'ReplaceSource::<%s>::replace_with_enforce' % ity, args):
                if kind != 'ret': J.fail_path(m, s2, 'C17: replace_with_enforce panics: %r' % (v,), mf); continue
                nxt.append(s2)
            for h in r.get('then', []):      # observers called between mutations (C05 / C14 histories)
                nxt2 = []
                for s2 in nxt:
                    if h == 'clone':        # continue with a clone of the value built so far
                        for kind, s3, v in api.call(m, s2, '<ReplaceSource<%s> as Clone>::clone' % ity, [s2.extra['root']]):
                            if kind != 'ret': J.fail_path(m, s3, 'C17: clone panics: %r' % (v,), mf); continue
                            s3.extra['root'] = Ref(Cell(v)); nxt2.append(s3)
                        continue
                    name = {'source': '<ReplaceSource<%s> as Source>::source', 'size': '<ReplaceSource<%s> as Source>::size'}[h] % ity
                    for kind, s3, v in api.call(m, s2, name, [s2.extra['root']]):
                        if kind != 'ret': J.fail_path(m, s3, 'C17: observer %s panics: %r' % (h, v), mf); continue
                        nxt2.append(s3)
                nxt = nxt2
        states = nxt
    return states


def mapping_text(sym, text, mp, out, key):
    """mappings of a source map given concretely or as a template with symbolic single-digit fields ('?')"""
    ms = mp['mappings']
    if not isinstance(ms, dict): return mkstr(ms)
    from . import codec
    bs, segs, cur = [], [], []
    lim = ms.get('max', 4)
    for ch in ms['template']:
        if ch in ',;':
            if cur: segs.append(cur); cur = []
            segs.append(ch); bs.append(ord(ch)); continue
        if ch == '?':
            c = z3.BitVec('sm%d' % sym.n, 8); sym.n += 1
            v = spec_b64_value(c)
            sym.st.pc.append(z3.And(v != 255, z3.ULT(v, lim)))
            cur.append([v & 31]); bs.append(c)
        else:
            v = B64_ALPHABET.index(bytes([ord(ch)]))
            if v & 32: raise Inconclusive('template digits must be terminal digits')
            cur.append([z3.BitVecVal(v, 8)]); bs.append(ord(ch))
    if cur: segs.append(cur)
    mt = StrV(tuple(bs))
    if ms.get('consistent', True):
        exp = codec.spec_decode(sym.st, segs)
        lines = text.split('\n')
        prev = None
        for (l, c, o) in exp:
            ll = len(lines) if not text.endswith('\n') else len(lines) - 1
            if text.endswith('\n') and l == ll + 1 and text:
                sym.st.pc.append(c == 0)            # zero-width segment at the very end of the text
                prev = (l, c); continue
            if l > max(ll, 1): sym.st.pc.append(z3.BoolVal(False)); continue
            sym.st.pc.append(z3.ULT(c, max(1, len(lines[l - 1]) + (1 if l < len(lines) else 0))))
            if prev is not None and prev[0] == l: sym.st.pc.append(z3.UGT(c, prev[1]))
            prev = (l, c)
            if o is not None:
                sym.st.pc.append(z3.ULT(o[0], max(1, len(mp.get('sources', [])))))
                if o[3] is not None: sym.st.pc.append(z3.ULT(o[3], max(1, len(mp.get('names', [])))))
    out[key] = mt
    return mt


def type_name(spec):
    if spec['kind'] == 'replace': return 'ReplaceSource<%s>' % type_of(spec['inner'])
    if spec['kind'] == 'cached': return 'CachedSource<%s>' % type_of(spec['inner'])
    return type_of(spec)


def type_of(spec):
    return {'orig': 'OriginalSource', 'rawstr': 'RawStringSource', 'raw': 'RawSource', 'rawbuf': 'RawBufferSource', 'concat': 'ConcatSource', 'concat_add': 'ConcatSource',
            'replace': 'ReplaceSource', 'cached': 'CachedSource', 'sms': 'SourceMapSource', 'boxed': 'BoxSource'}[spec['kind']]


def concretize_spec(mdl, spec, m=None, st=None):
    """concrete representative of the tree under the model; with m/st given, also checks that the path determines the
    character classes the oracles depend on (all classes for OriginalSource texts, line breaks elsewhere)"""
    out = {k: v for k, v in spec.items() if not k.startswith('_')}
    if '_text' in spec and 'bytes' in spec:
        out['text'] = bytes(spec['bytes']).decode('utf-8', 'replace')
    elif '_text' in spec:
        if m is not None: out['text'] = det_text(m, st, mdl, spec['_text'], 'full' if spec['kind'] == 'orig' else True)
        else: out['text'] = bytes(mval(mdl, b) for b in spec['_text'].bytes()).decode('utf-8', 'replace')
    if 'children' in spec: out['children'] = [concretize_spec(mdl, c, m, st) for c in spec['children']]
    if 'inner' in spec: out['inner'] = concretize_spec(mdl, spec['inner'], m, st)
    if '_mappings' in spec:
        mt = spec['_mappings']
        ms = ''
        for b in mt.bytes():
            if isinstance(b, int): ms += chr(b)
            else:
                k = mval(mdl, b); ms += chr(k)
                if m is not None and not m.valid(st, b == z3.BitVecVal(k, 8)): raise Undetermined(b == z3.BitVecVal(k, 8))
        out['map'] = dict(spec['map'], mappings=ms)
    if '_inner_mappings' in spec:
        ms = ''
        for b in spec['_inner_mappings'].bytes():
            if isinstance(b, int): ms += chr(b)
            else:
                k = mval(mdl, b); ms += chr(k)
                if m is not None and not m.valid(st, b == z3.BitVecVal(k, 8)): raise Undetermined(b == z3.BitVecVal(k, 8))
        out['inner_map'] = dict(spec['inner_map'], mappings=ms)
    if spec['kind'] == 'replace':
        reps = []
        for r in spec['replacements']:
            rr = {k: v for k, v in r.items() if not k.startswith('_')}
            for key in ('start', 'end'):
                rr[key] = det_int(m, st, mdl, r['_' + key]) if m is not None else mval(mdl, r['_' + key])
            reps.append(rr)
        out['replacements'] = reps
    return out


# ------------------------------------------------------------------------------------------ observation
class Undetermined(Exception):
    def __init__(self, expr): self.expr = expr


def det_int(m, st, mdl, v):
    """the value of v, which must be determined by the path condition"""
    if isinstance(v, IntV): v = v.e
    if isinstance(v, int): return v
    k = mval(mdl, v)
    if not m.valid(st, v == z3.BitVecVal(k, v.size())): raise Undetermined(v == z3.BitVecVal(k, v.size()))
    return k


def det_text(m, st, mdl, s, classes=True):
    """concrete representative of StrV s under the model. Its bytes need not be determined by the path, but their
    CLASS (line break / brace / blank / other) must be - the oracles depend on nothing else."""
    out = bytearray()
    for b in s.bytes():
        if isinstance(b, int): out.append(b); continue
        k = mval(mdl, b)
        out.append(k)
        if classes == 'full':
            cls = class_pred(b, k)
            if not m.valid(st, cls): raise Undetermined(cls)
        elif classes:
            cls = (b == z3.BitVecVal(10, 8)) if k == 10 else (b != z3.BitVecVal(10, 8))
            if not m.valid(st, cls): raise Undetermined(cls)
    return out.decode('utf-8', 'replace')


def class_pred(b, k):
    B = lambda x: z3.BitVecVal(x, 8)
    if k == 10: return b == B(10)
    if k in (59, 123, 125): return z3.Or(b == B(59), b == B(123), b == B(125))
    if k in (32, 9, 13): return z3.Or(b == B(32), b == B(9), b == B(13))
    return z3.And(b != B(10), b != B(59), b != B(123), b != B(125), b != B(32), b != B(9), b != B(13))


def events_of(m, st, mdl, events, idx):
    out = []
    for name, args in events:
        if name == 'chunk':
            t = opt_rope_text(args[0])
            mp = read_mapping(idx, args[1])
            o = None
            if mp[2] is not None:
                o = [det_int(m, st, mdl, mp[2][0]), det_int(m, st, mdl, mp[2][1]), det_int(m, st, mdl, mp[2][2]), None if mp[2][3] is None else det_int(m, st, mdl, mp[2][3])]
            out.append(['chunk', None if t is None else det_text(m, st, mdl, t), det_int(m, st, mdl, mp[0]), det_int(m, st, mdl, mp[1]), o])
        elif name == 'source':
            c = args[2]
            ct = None if c.disc == 0 else det_text(m, st, mdl, as_text(c.payload[1].f[0]))
            out.append(['source', det_int(m, st, mdl, args[0]), det_text(m, st, mdl, as_text(args[1]), False), ct])
        elif name == 'name':
            out.append(['name', det_int(m, st, mdl, args[0]), det_text(m, st, mdl, as_text(args[1]), False)])
    return out


def alt_prop_of(J): return getattr(J, 'alt_prop', 'C13')


def disc_int(x):
    if isinstance(x.disc, int): return x.disc
    raise Inconclusive('symbolic discriminant in an observation')


def as_text(x):
    from msx.contracts import as_str
    if isinstance(x, tuple) and x and x[0] == 'ref': x = x[1]
    x = sv(x)
    if isinstance(x, RopeV): return x.flat()
    if is_real_rope(x):
        # a real rope.rs value (rope='real'): its flat bytes read off the representation
        rp = sv(x.f[0])
        pl = rp.payload[rp.disc].f[0]
        if isinstance(sv(pl), StrV): return sv(pl)
        inner = sv(pl)
        while isinstance(inner, Ref) or (isinstance(inner, tuple) and inner and inner[0] == 'ref'): inner = sv(inner[1] if isinstance(inner, tuple) else deref(inner))
        bs = []
        for e in inner.f:
            e = sv(e)
            bs.extend(sv(e.f[0] if not (isinstance(e.f[0], tuple) and e.f[0][0] == 'ref') else e.f[0][1]).bytes())
        return StrV(tuple(bs))
    return as_str(x)


def source_map_of(m, st, mdl, v, idx):
    """Option<SourceMap> value -> dict | None"""
    if v.disc == 0: return None
    sm = sv(v.payload[1].f[0])
    def strs(x):
        x = sv(x)
        return [det_text(m, st, mdl, as_text(e), False) for e in x.f]
    root = sm.f[idx.fld('SourceMap', 'source_root')]
    dbg = sm.f[idx.fld('SourceMap', 'debug_id')]
    return {'debugId': None if dbg.disc == 0 else det_text(m, st, mdl, as_text(dbg.payload[1].f[0]), False), 'sourceRoot': None if root.disc == 0 else det_text(m, st, mdl, as_text(root.payload[1].f[0]), False),
            'mappings': det_text(m, st, mdl, as_text(sm.f[idx.fld('SourceMap', 'mappings')]), False),
            'sources': strs(sm.f[idx.fld('SourceMap', 'sources')]), 'sourcesContent': strs(sm.f[idx.fld('SourceMap', 'sources_content')]),
            'names': strs(sm.f[idx.fld('SourceMap', 'names')])}


def observe(m, J, st, root, tyname, spec, what, mf):
    """runs the requested observations one after another on every path. what: subset of
    ['source','c1f0','c0f0','c1f1','c0f1','map1','map0'].  yields (state, raw observation dict)"""
    idx = m.idx
    states = [(st, {})]
    for w in what:
        nxt = []
        for s, raw in states:
            src = s.extra['root']
            while isinstance(src, Ref) and isinstance(deref(src), Ref): src = deref(src)      # look through Arc layers
            if w in ('source', 'rope', 'buffer', 'size'):
                outs = api.call(m, s, '<%s as Source>::%s' % (tyname, w), [src])
            elif w in ('writer', 'writerfail'):
                from msx.textmodel import WriterV
                lim = None
                if w == 'writerfail':
                    lim = IntV(z3.BitVec('wlimit', 64), 'usize'); s.pc.append(z3.ULE(zi(lim), text_len(spec) + 1))
                wr = Ref(Cell(WriterV(lim))); s.extra['writer'] = wr
                outs = api.call(m, s, '<%s as Source>::to_writer' % tyname, [src, wr])
            elif w == 'hash':
                from msx.textmodel import HasherV
                hs = Ref(Cell(HasherV())); s.extra['hasher'] = hs
                outs = api.call(m, s, '<%s as Hash>::hash::<HasherV>' % tyname, [src, hs])
            elif w == 'clone':
                outs = api.call(m, s, '<%s as Clone>::clone' % tyname, [src])
            elif w.startswith('map'):
                outs = api.call(m, s, '<%s as Source>::map' % tyname, [src, map_options(idx, w == 'map1', False)])
            else:
                s.events = []
                cb = recorder()
                outs = api.call(m, s, '<%s as StreamChunks>::stream_chunks' % tyname, [src, map_options(idx, w[1] == '1', w[3] == '1')] + cb)
            for kind, s2, v in outs:
                J.paths += 1
                if kind != 'ret':
                    J.fail_path(m, s2, 'C17: %s panics on a source tree in its domain: %r' % (w, v), lambda mdl: dict(mf(mdl), panic_in=w)); continue
                r2 = dict(raw)
                if w == 'clone':
                    s2.extra['root'] = Ref(Cell(v))          # continue on the clone (it shares the caches)
                    r2[w] = True
                elif w == 'hash':
                    r2[w] = list(sv(s2.extra['hasher']).log)
                elif w in ('writer', 'writerfail'):
                    wv = sv(s2.extra['writer'])
                    r2[w] = (StrV(tuple(wv.buf)), v, wv.limit)
                else:
                    r2[w] = (list(s2.events), v) if not (w in ('source', 'rope', 'buffer', 'size') or w.startswith('map')) else v
                nxt.append((s2, r2))
        states = nxt
    return states


def flatten(spec):
    """the flat concatenation equivalent to a (nested, boxed) ConcatSource tree"""
    def leaves(sp):
        if sp['kind'] == 'boxed': return leaves(sp['inner'])
        if sp['kind'] in ('concat', 'concat_add'): return [x for c in sp['children'] for x in leaves(c)]
        return [sp]
    return {'kind': 'concat', 'children': leaves(spec)}


def alt_of(spec, alt):
    if alt == 'flat': return flatten(spec)
    if alt == 'same': return spec
    if alt == 'noempty':
        def strip(sp):
            o = dict(sp)
            if 'children' in sp: o['children'] = [strip(c) for c in sp['children'] if text_len(c) > 0]
            if 'inner' in sp: o['inner'] = strip(sp['inner'])
            return o
        return strip(spec)
    if alt == 'uncached':
        def strip(sp):
            if sp['kind'] == 'cached': return strip(sp['inner'])
            o = dict(sp)
            if 'children' in sp: o['children'] = [strip(c) for c in sp['children']]
            if 'inner' in sp: o['inner'] = strip(sp['inner'])
            return o
        return strip(spec)
    if alt == 'unwrap':
        # every wrapper that must change nothing is removed at any depth: boxing, CachedSource, ReplaceSource without replacements
        def strip(sp):
            if sp['kind'] in ('boxed', 'cached'): return strip(sp['inner'])
            if sp['kind'] == 'replace' and not sp.get('replacements'): return strip(sp['inner'])
            o = dict(sp)
            if 'children' in sp: o['children'] = [strip(c) for c in sp['children']]
            if 'inner' in sp: o['inner'] = strip(sp['inner'])
            return o
        return strip(spec)
    if alt == 'inner':
        sp = spec
        if sp['kind'] in ('concat', 'concat_add') and len(sp['children']) == 1: return sp['children'][0]
        if sp['kind'] in ('boxed', 'cached', 'replace'): return sp['inner']
        if sp['kind'] in ('concat', 'concat_add'):
            ne = [c for c in sp['children'] if text_len(c) > 0]
            if len(ne) == 1: return ne[0]
    raise Inconclusive('no %s alternative for this tree' % alt)


def to_obs(m, s, mdl, raw, idx):
    """raw observation values of one path -> concrete observation dict (raises Undetermined when the path leaves a value open)"""
    from msx.contracts import as_str
    obs = {'streams': {}, 'maps': {}}
    for w, val in raw.items():
        if w == 'source':
            x = sv(val)
            if isinstance(x, Enum): x = sv(x.payload[disc_int(x)].f[0])
            obs['source'] = det_text(m, s, mdl, as_str(x))
        elif w in ('rope', 'buffer'):
            x = sv(val)
            if isinstance(x, Enum): x = sv(x.payload[disc_int(x)].f[0])
            if isinstance(x, RopeV): x = x.flat()
            if is_real_rope(x): x = as_text(x)
            if isinstance(x, Agg): x = StrV(tuple(b.e for b in x.f))
            obs.setdefault('views', {})[w] = det_text(m, s, mdl, x)
            if w == 'buffer': obs['views']['buffer_bytes'] = [det_int(m, s, mdl, b) if not isinstance(b, int) else b for b in x.bytes()]
        elif w == 'size':
            obs.setdefault('views', {})['size'] = det_int(m, s, mdl, val)
        elif w in ('clone', 'hash'):
            pass
        elif w == 'writer':
            obs.setdefault('views', {})['writer'] = det_text(m, s, mdl, val[0])
            obs['views']['writer_bytes'] = [det_int(m, s, mdl, b) if not isinstance(b, int) else b for b in val[0].bytes()]
            if disc_int(val[1]) != 0: obs['views']['writer_err'] = True
        elif w == 'writerfail':
            obs.setdefault('views', {})['writerfail'] = {'written': det_text(m, s, mdl, val[0]), 'err': disc_int(val[1]) != 0, 'k': det_int(m, s, mdl, val[2]),
                                                         'written_bytes': [det_int(m, s, mdl, b) if not isinstance(b, int) else b for b in val[0].bytes()]}
        elif w.startswith('map'):
            obs['maps']['c' + w[3]] = source_map_of(m, s, mdl, val, idx)
        else:
            evs, ret = val
            obs['streams'][w] = {'events': events_of(m, s, mdl, evs, idx),
                                 'end': [det_int(m, s, mdl, ret.f[idx.fld('GeneratedInfo', 'generated_line')]), det_int(m, s, mdl, ret.f[idx.fld('GeneratedInfo', 'generated_column')])]}
    return obs


def sub_roots(m, s, spec):
    """(name, reference, type name, spec) of the direct children of a composite, for the C06 / C13 oracles"""
    idx = m.idx
    root = sv(s.extra['root'])
    if spec['kind'] == 'replace':
        return [('inner', root.f[idx.fld('ReplaceSource', 'inner')], type_name(spec['inner']), spec['inner'])]
    if spec['kind'] in ('concat', 'concat_add'):
        ch = sv(root.f[idx.fld('ConcatSource', 'children')])
        return [('child%d' % k, ch.f[k], type_name(c), c) for k, c in enumerate(spec['children'])]
    if spec['kind'] == 'cached':
        return [('inner', root.f[idx.fld('CachedSource', 'inner')], type_name(spec['inner']), spec['inner'])]
    return []


def observe_subs(m, J, s, spec, mf, what=('source', 'c1f0')):
    """-> [(state, {name: raw})]"""
    states = [(s, {})]
    for (name, _, tyn, sp) in sub_roots(m, s, spec):
        nxt = []
        for s1, acc in states:
            ref = dict((n, r) for (n, r, _, _) in sub_roots(m, s1, spec))[name]
            while isinstance(ref, Ref) and isinstance(deref(ref), Ref): ref = deref(ref)
            saved = s1.extra['root']
            s1.extra['root'] = ref
            tn = tyn if sp['kind'] != 'boxed' else type_name(unbox(sp))
            for s2, raw in observe(m, J, s1, None, tn, sp, what, mf):
                s2.extra['root'] = saved_root(s2, saved)
                a2 = dict(acc); a2[name] = (sp, raw); nxt.append((s2, a2))
        states = nxt
    return states


def unbox(sp):
    while sp['kind'] == 'boxed': sp = sp['inner']
    return sp


def saved_root(s2, saved):
    # the saved reference belongs to the state before it was cloned: find the same cell in s2 by id through extra
    return s2.extra.get('_main_root', saved)


def finish(m, J, s, raw, spec, props, mf, depth=0, subs_raw=None, alt=None):
    """turn the raw observation of one path into concrete observations (checking that the path determines them) and judge"""
    idx = m.idx
    mdl = J.model(m, s.pc)
    if mdl is None: return
    try:
        obs = to_obs(m, s, mdl, raw, idx); obs['tree'] = concretize_spec(mdl, spec, m, s)
        if alt:
            obs['alt'] = to_obs(m, s, mdl, alt[2], idx); obs['alt_kind'] = alt[0]; obs['alt_prop'] = alt_prop_of(J)
            obs['alt']['tree'] = concretize_spec(mdl, alt[1])
        if subs_raw:
            obs['subs'] = {name: to_obs(m, s, mdl, sraw, idx) for name, (sp, sraw) in subs_raw.items()}
    except Undetermined as u:
        if depth > 30: raise Inconclusive("observation not determined by the path after 30 case splits")
        for side in (u.expr, z3.Not(u.expr)):
            if m.feasible(s, side):
                s2 = s.clone(); s2.pc.append(side); s2.model = None
                finish(m, J, s2, raw, spec, props, mf, depth + 1, subs_raw, alt)
        return
    if 'source' not in obs:
        obs['source'] = oracles.provenance(obs['tree'])[0]
    vs = oracles.judge(obs, props)
    J.obligations += 1
    if vs:
        from lib import known
        vs, hits = known.split_known(known.load(), props, obs, vs)
        for h in hits:
            J.known = getattr(J, 'known', {})
            if h not in J.known: J.known[h] = dict(mf(mdl), oracle='known finding ' + h, known=h)
    if not vs: J.discharged += 1
    else:
        d = mf(mdl); d['oracle'] = '; '.join('%s: %s' % v for v in vs[:3]); d['props'] = sorted({p for p, _ in vs})
        J.cex.append(d)
    for k, sx in obs['streams'].items():
        ch = [e for e in sx['events'] if e[0] == 'chunk']
        if any(e[4] is not None for e in ch): J.see('mapped_chunk')
        if len(ch) >= 2: J.see('two_chunks')
    if any(v is not None for v in obs['maps'].values()): J.see('map_some')
    if len(J.samples) < 2: J.samples.append({'tree': obs['tree'], 'source': obs['source'], 'maps': obs['maps']})


def tree_job(jid, tree, props=None, what=('source', 'rope', 'buffer', 'size', 'writer', 'c1f0', 'c0f0', 'c1f1', 'c0f1', 'map1', 'map0'), alphabet='q', flavour='mir', witnesses=(), subs=True, alt=None, history=(), history_slots=0, history_ops=('map1', 'map0', 'c1f0', 'c0f0', 'source', 'hash', 'clone'), alt_prop='C13', rope=None, loop_bound=64):
    # rope='real': rope.rs is interpreted from its MIR as well (no Rope contract) - slower, used for the replay paths that measure ropes
    idx = api.load(flavour); m = api.machine(idx, loop_bound=loop_bound, rope=rope); J = Job(jid, m); J.alt_prop = alt_prop
    st = State()
    sym = Sym(st, ALPHA[alphabet])
    root, spec = build(idx, sym, tree, m)
    if root is not None: st.extra['root'] = root if isinstance(root, Ref) else Ref(Cell(root))
    tyname = type_name(tree)
    mf = lambda mdl: dict({'family': 'tree', 'tree': concretize_spec(mdl, spec), 'what': list(what), 'writer_limit': mval(mdl, z3.BitVec('wlimit', 64)), 'history': list(history) + [history_ops[mval(mdl, z3.BitVec('hist%d' % i, 8)) % len(history_ops)] for i in range(history_slots)], 'alt_prop': alt_prop}, **({'alt': alt_name, 'alt_tree': concretize_spec(mdl, alt_spec[0])} if alt_spec else {}))
    alt_spec = []; alt_name = alt
    want_subs = subs and (props is None or any(p in ('C06',) for p in props))
    if alt and (props is None or alt_prop in props):
        aspec0 = alt_of(spec, alt)
        aroot, aspec = build(idx, sym, aspec0, m, False)
        alt_spec.append(aspec)
        st.extra['alt_root'] = aroot if isinstance(aroot, Ref) else Ref(Cell(aroot))
    else: alt = None
    hist_states = []
    for st1 in prepare(m, J, st, spec, mf):
        # call history before the observations: a fixed list and/or `history_slots` slots whose operation the solver picks
        hs = [(st1, [])]
        for _ in range(history_slots):
            nx = []
            for s_, chosen in hs:
                sel = z3.BitVec('hist%d' % len(chosen), 8)
                for k_, op in enumerate(history_ops):
                    if m.feasible(s_, sel == k_):
                        s2_ = s_.clone(); s2_.pc.append(sel == k_); s2_.model = None
                        nx.append((s2_, chosen + [op]))
            hs = nx
        for s_, chosen in hs:
            ops = list(history) + chosen
            sts = [s_]
            for op in ops:
                sts = [s3 for s2_ in sts for s3, _ in observe(m, J, s2_, root, tyname, spec, [op], mf)]
            for s3 in sts:
                s3.extra['history'] = ops; hist_states.append(s3)
    for st1 in hist_states:
        for s, raw in observe(m, J, st1, root, tyname, spec, what, mf):
            if props == ['C17']:
                # panic freedom only: every observation returned normally on this path (panics were recorded by observe)
                J.obligations += 1; J.discharged += 1
                if len(J.samples) < 1:
                    mdl = J.model(m, s.pc)
                    if mdl is not None: J.samples.append({'tree': concretize_spec(mdl, spec), 'returned_normally': list(what)})
                continue
            if alt:
                s.extra['_main_root'] = s.extra['root']; s.extra['root'] = s.extra['alt_root']
                for s2, araw in observe(m, J, s, None, type_name(unbox(aspec)), aspec, what, mf):
                    s2.extra['root'] = s2.extra['_main_root']
                    finish(m, J, s2, raw, spec, props, mf, 0, None, (alt, aspec, araw))
                continue
            # add() flattens a typed ConcatSource child: the children of the object are then not the children of the spec
            flattened = spec['kind'] == 'concat_add' and any(c['kind'] in ('concat', 'concat_add') for c in spec['children'])
            if want_subs and not flattened and spec['kind'] in ('replace', 'concat', 'concat_add', 'cached'):
                s.extra['_main_root'] = s.extra['root']
                for s2, sraw in observe_subs(m, J, s, spec, mf):
                    finish(m, J, s2, raw, spec, props, mf, 0, sraw)
            else:
                finish(m, J, s, raw, spec, props, mf)
    J.see('ran')
    return J.result(required_witnesses=('ran',) + tuple(witnesses))


# ------------------------------------------------------------------------------------------ translator validation
def random_tree(rnd, depth=0):
    texts = ['', 'a', 'a;b', 'ab\n', 'a;\n b{c}\n', '\n\n', 'x = 1;\ny', '  ;;a', 'é;\n€', 'a\tb\r\n']
    k = rnd.choice(['orig', 'rawstr', 'raw', 'rawbuf', 'concat', 'replace', 'cached', 'sms', 'boxed'] if depth < 2 else ['orig', 'rawstr', 'raw', 'rawbuf'])
    if k == 'orig': return {'kind': 'orig', 'text': rnd.choice(texts), 'name': rnd.choice(['a.js', 'b.js'])}
    if k in ('rawstr', 'raw', 'rawbuf'): return {'kind': k, 'text': rnd.choice(texts)}
    if k == 'concat': return {'kind': 'concat', 'children': [random_tree(rnd, depth + 1) for _ in range(rnd.randint(0, 3))]}
    if k in ('cached', 'boxed'): return {'kind': k, 'inner': random_tree(rnd, depth + 1)}
    if k == 'sms':
        return {'kind': 'sms', 'text': rnd.choice(['abcd\nef', 'ab', 'a\n\nb\n']), 'name': 'x.js',
                'map': {'mappings': rnd.choice(['AAAA', 'AAAA,CAAC;AACA', 'A,CAAAA', ';;AAAA', 'AAAA;;AAEA']), 'sources': ['o.js'], 'sourcesContent': rnd.choice([[], ['o\nriginal']]), 'names': ['nm'],
                        **({'sourceRoot': rnd.choice(['', 'r', 'r/'])} if rnd.random() < 0.5 else {})}}
    inner = random_tree(rnd, depth + 1)
    n = len(oracles.provenance(inner)[0].encode('utf-8')) if not oracles.has_kind(inner, ('sms',)) else 6
    reps = []
    for _ in range(rnd.randint(0, 3)):
        a = rnd.randint(0, n + 1); b = rnd.randint(a, n + 2)
        reps.append({'start': a, 'end': b, 'content': rnd.choice(['', 'X', 'X\n', '\nY', 'XY']), 'name': rnd.choice([None, 'n']), 'enforce': rnd.choice([0, 1, 1, 2])})
    return {'kind': 'replace', 'inner': inner, 'replacements': reps}


def ascii_boundaries_ok(tree):
    """replacement positions must be on char boundaries of the inner text: keep to ASCII inner texts for replace nodes"""
    if tree['kind'] == 'replace':
        if oracles.has_kind(tree['inner'], ('sms',)): txt = ''
        else: txt = oracles.provenance(tree['inner'])[0]
        if any(ord(c) > 127 for c in txt): return False
    return all(ascii_boundaries_ok(c) for c in tree.get('children', [])) and ('inner' not in tree or ascii_boundaries_ok(tree['inner']))


def tv_trees(jid, n=40, seed=0):
    """translator validation (not a deciding step): pseudo-random CONCRETE source trees are observed by the interpreter and by the
    native crate; every observation (text, all four streams event by event, both maps) must be identical."""
    import random, subprocess, tempfile
    rnd = random.Random(7000 + seed)
    idx = api.load('mir'); m = api.machine(idx, loop_bound=200); J = Job(jid, m)
    what = ['source', 'size', 'c1f0', 'c0f0', 'c1f1', 'c0f1', 'map1', 'map0']
    trees = []
    while len(trees) < n:
        t = random_tree(rnd)
        if ascii_boundaries_ok(t): trees.append(t)
    with tempfile.NamedTemporaryFile('w', suffix='.json', delete=False) as f:
        json.dump({'family': 'batch', 'items': [{'family': 'tree', 'tree': t, 'what': what} for t in trees]}, f); path = f.name
    binp = os.environ.get('VERIF_REPLAY_DEBUG') or os.path.join(api.VERIF, '.cache', 'replay-target-debug', 'debug', 'verif_replay')
    r = subprocess.run([binp, path], capture_output=True, text=True, timeout=300)
    os.unlink(path)
    native = json.loads(r.stdout.strip().split('\n')[-1])['results']
    bad = 0
    for t, nat in zip(trees, native):
        st = State(); sym = Sym(st, ALPHA['q'])
        try:
            root, spec = build(idx, sym, t, m, False)
            st.extra['root'] = root if isinstance(root, Ref) else Ref(Cell(root))
            outs = list(observe(m, J, st, None, type_name(unbox(t)), spec, what, lambda mdl: {}))
            if len(outs) != 1: raise Inconclusive('concrete tree forked or panicked (%d outcomes)' % len(outs))
            s, raw = outs[0]
            mine = to_obs(m, s, J.model(m, s.pc), raw, idx)
        except Inconclusive as e:
            bad += 1; J.notes.append('interpreter could not run %r: %s' % (t, str(e)[:300])); continue
        diffs = []
        if nat.get('panicked') or nat.get('panics'): diffs.append('native panics %r' % (nat.get('panics') or nat.get('message')))
        else:
            if mine.get('source') != nat.get('source'): diffs.append('source %r vs %r' % (mine.get('source'), nat.get('source')))
            if mine.get('views', {}).get('size') != nat.get('views', {}).get('size') and 'size' in nat.get('views', {}): diffs.append('size')
            for k in ('c1f0', 'c0f0', 'c1f1', 'c0f1'):
                a, b = mine['streams'].get(k), nat['streams'].get(k)
                if a != b: diffs.append('%s: %r vs %r' % (k, a, b))
            for k in ('c1', 'c0'):
                a, b = mine['maps'].get(k), nat['maps'].get(k)
                if a != b: diffs.append('map %s: %r vs %r' % (k, a, b))
        if diffs:
            bad += 1; J.notes.append('translator disagreement on %r: %s' % (t, '; '.join(diffs)[:600]))
        J.paths += 1
    res = J.result(status='pass' if bad == 0 else 'inconclusive')
    res['tv'] = len(trees)
    if bad: res['reason'] = 'translator validation failed on %d of %d trees: %s' % (bad, len(trees), ' || '.join(J.notes[:3])[:2500])
    res['samples'] = ['translator validation: %d pseudo-random concrete source trees (all node kinds, seed %d): interpreter observations == native observations' % (len(trees), seed)]
    return res
